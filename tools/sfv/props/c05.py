'''C05 -- hierarchical index: tree and table views agree; per-level selection is exact.'''
import datetime
import itertools

import numpy as np

from .. import lit
from ..core import Case

ID = 'C05'
MANIFEST = {
    'text': ('Coq theorems over the IndexLevel tree model (SF/Hier.v: labels, parent-relative offsets, children), all unbounded in depth, '
             'fan-out and history length, for any label type with decidable equality: '
             'C05_iter_is_flatten (the deque walk of IndexLevel.__iter__ yields exactly the depth-first tuple sequence; generic FIFO lemma '
             'bfs_lorder/bfs_dfs); C05_views_agree (iteration, len, depth, every values_at_depth array -- computed through label widths, i.e. '
             'the stored offset of the next sibling --, the _blocks cache content, membership and leaf lookup with accumulated offsets all '
             'equal the corresponding function of the one tuple sequence flatten t); C05_hloc_exact (the breadth-first HLoc resolution of '
             'IndexLevel.loc_to_iloc -- deque of (level, depth, offset), LocMap with partial_selection, except KeyError: pass, part flattening -- '
             'equals the nested-loop specification S_hloc over the flat tuples: positions, order under list selectors, single-position flag); '
             'C05_from_labels_exact, C05_append_exact, C05_extend_exact (builder / GO append along the last edge / extend produce a well-formed '
             'tree denoting exactly the old tuples followed by the new ones; for EVERY key an append is either admitted and exact or rejected with the state unchanged -- fixes 5320f59/cc33791/248eb88 are modelled, no guard left on slices, appends or key length); '
             'C05_derive_no_stale_table (an index derived from the grown object at any point inherits the cache only when fresh: same tuples, same columns); C05_go_history, C05_history_blocks (invariant over every history of append/extend/read incl. cache materialisation in between); '
             'C05_spec_selects_matching / C05_hloc_selects_matching (for selectors : / label / list the specification, hence the resolution, returns exactly the positions whose tuple matches every level selector); '
             'C05_level_drop_tuples (the tree left by level_drop(-1) -- model M_drop_inner, tied node by node to the real tree -- denotes the specified tuples; only its offsets are wrong: refuted witness); C05_source_shape (constants the model hinges on, re-extracted from the source AST on every run). '
             'Correspondence: the real IndexLevel tree is read out of every IndexHierarchy built through all public construction routes and GO '
             'histories and fed to the models inside Coq; list(ih), values, values_at_depth, label_widths_at_depth, len, in, '
             'loc_to_iloc(tuple/HLoc/mask), ih.loc, Series[HLoc], Frame.loc[HLoc], Frame[HLoc] are compared with M and with S.'),
    'note': ('trusted: Coq kernel, hand-written models SF/Hier.v (tied to the code by the correspondence of this run), harness. '
             'Covered by correspondence only (no M): TypeBlocks extraction behind ih.loc/Series/Frame; the routes of stratum api:routes that rebuild a '
             'hierarchy through the table (sort, roll, relabel, astype, rehierarch, set operations, drop, sample, level_add, level_drop(1)) are compared with the tuples '
             'they specify and, where the tree is rebuilt, with the canonical tree of the from_labels model. NumPy/automap label lookup is modelled as '
             'first-index-of under structural equality (levels homogeneously typed; datetime levels: same-unit keys in M, every spelling against S and against '
             'the one-go index). NOT covered: Boolean masks and stepped slices at outer depths, empty selections (outside the claim); the datetime64 branch of '
             'LocMap.map_slice_args (finding, S only); reductions over a hierarchy (sum/min: C15), to_pandas/from_pandas, pickling, searchsorted beyond three fixed probes, '
             'display beyond line count/labels, NaN/None labels, mixed bool/int labels, name propagation except level_drop. '
             'The well-formedness hypothesis of the theorems is checked (wf_obs) on every tree the implementation produced in this run.'),
    'technique': 'refinement proof M = S over trees (FIFO lemma) + differential runs on extracted trees',
}
PROPERTY_FILES = ['Properties/C05.v']
REFUTED_FILES = ['Refuted/C05.v']
GENERATED_FILES = ['Gen/Gen_c05.v']
MODEL_FILES = ['SF/Hier.v', 'SF/HierVal.v']
IMPORTS = 'Require Import SF.Prelude SF.PySlice SF.Dtype SF.Value SF.Hier SF.HierVal.'
RULE = ('trees of depth 2..4 with ragged fan-out 1..6, labels drawn per depth from small pools (so inner labels repeat under different '
        'parents) in random order, per-depth kinds str/int/date; every construction route; selectors per depth from '
        '{all, label, list, label slice} plus, at the innermost depth, label slices with a step (-2..2, ends biased to the first/last label of the leaf) and Boolean masks (also as whole key); iter_label(d) / iter_label([..]) observed first on every index (before the table is built) and right after every growth step; GO histories of append/extend/read: EXHAUSTIVE over {materialise, append-leaf, append-branch, extend}^(<=2 quick, <=3 thorough) from two start indices with the full probe battery (derive a new index through 7 public routes and observe all its views; HLoc of every selector kind; Series/Frame .loc[HLoc]) run immediately after every growth step, with one of the ~23 self-refreshing reads (values_at_depth(d), values, dtypes, nbytes, iloc, reversed, to_frame, deepcopy, relabel, isin, ==, display, roll, shape/size/depth/len...) rotated into FIRST position; EXHAUSTIVE stratum api:go:first: start x growth kind x every such read as the very first read after growth with the table materialised before; plus random longer histories with random probes; stratum api:go:date: IndexHierarchyGO and FrameGO columns with a datetime index class (IndexDate at depth 1 of 2, depth 1 of 3, depth 2 of 3; IndexYearMonth) grown by appends/extends that introduce NEW outer labels with dates spelled as np.datetime64 / datetime.date / str, then HLoc / in / loc_to_iloc / Series.loc with the date spelled every way (incl. coarser-unit strings, lists, slices) against the tuple spec and against the same labels built in one go. '
        'Exhaustive stratum (thorough tier, api:hloc:small): all 90 depth-2 trees with root labels a | a,b and leaf sequences of <= 2 distinct labels of {1,2,3} x every selector pair of the menu {:, label, ordered list of <= 2 labels, label slice with optional ends} (40500 keys) + one random innermost mask per tree; quick tier samples 700 of them; second exhaustive stratum api:hloc:small-step: 2 three-leaf trees (leaves of 2-4 labels, sorted and unsorted) and the 90 small trees x outer selector x stepped innermost slice (ends None|label, step -2,-1,1,2), 17k keys (quick: 500). '
        'non-trivial = the selection is non-empty and the tree has more than one leaf node; distinct = distinct (rows, route/key).')
ASSUMPTIONS = [
    'label lookup in an Index (FrozenAutoMap / dict) = first position under structural equality of canonical labels; levels are homogeneously typed so Python == and structural equality coincide',
    'a label slice is defined inside a sibling group that contains both end points; elsewhere the specification makes no demand',
    'NumPy Boolean indexing positions[mask] = ascending positions of True',
]
TRUSTED = []
EXHAUSTIVE = {'quick': False, 'thorough': True}
TRANSLATED = []

EPOCH = np.datetime64('1970-01-01', 'D')


# ----------------------------------------------------------------------------- constants re-extracted from the source
def generate(repo):
    '''Fail-closed extraction of the source facts the implementation model of HLoc / GO growth hinges on.'''
    import ast
    import os

    def parse(rel):
        with open(os.path.join(repo, rel)) as f:
            return ast.parse(f.read())

    def find_class(mod, name):
        for n in mod.body:
            if isinstance(n, ast.ClassDef) and n.name == name:
                return n
        raise ValueError(f'class {name} not found')

    def find_func(cls, name):
        for n in cls.body:
            if isinstance(n, ast.FunctionDef) and n.name == name:
                return n
        raise ValueError(f'method {cls.name}.{name} not found')

    il = parse('static_frame/core/index_level.py')
    fn = find_func(find_class(il, 'IndexLevel'), 'loc_to_iloc')
    # next_offset = offset + level.offset
    sums = [n for n in ast.walk(fn) if isinstance(n, ast.Assign) and len(n.targets) == 1
            and isinstance(n.targets[0], ast.Name) and n.targets[0].id == 'next_offset']
    if len(sums) != 1:
        raise ValueError('expected exactly one assignment to next_offset in IndexLevel.loc_to_iloc')
    v = sums[0].value
    is_sum = (isinstance(v, ast.BinOp) and isinstance(v.op, ast.Add)
              and {ast.dump(v.left), ast.dump(v.right)} == {ast.dump(ast.parse('offset', mode='eval').body),
                                                             ast.dump(ast.parse('level.offset', mode='eval').body)})
    calls = [n for n in ast.walk(fn) if isinstance(n, ast.Call) and isinstance(n.func, ast.Attribute)
             and n.func.attr == '_loc_to_iloc' and ast.dump(n.func.value) == ast.dump(ast.parse('level.index', mode='eval').body)]
    if len(calls) != 2:
        raise ValueError(f'expected two level.index._loc_to_iloc calls in the HLoc branch, found {len(calls)}')

    def kw(call, name):
        for k in call.keywords:
            if k.arg == name:
                return k.value
        return None
    leaf = [c for c in calls if kw(c, 'offset') is not None]
    node = [c for c in calls if kw(c, 'offset') is None]
    if len(leaf) != 1 or len(node) != 1:
        raise ValueError('expected one lookup with offset= (leaf) and one without (inner node)')

    def is_true(x):
        return isinstance(x, ast.Constant) and x.value is True
    leaf_off = kw(leaf[0], 'offset')
    leaf_off_name = leaf_off.id if isinstance(leaf_off, ast.Name) else ast.dump(leaf_off)
    handlers = [h for n in ast.walk(fn) if isinstance(n, ast.Try) for h in n.handlers]
    passes = [h for h in handlers if isinstance(h.type, ast.Name) and h.type.id == 'KeyError'
              and len(h.body) == 1 and isinstance(h.body[0], ast.Pass)]
    # HLoc.__getitem__ default and has_key_multiple
    hl = parse('static_frame/core/hloc.py')
    hcls = find_class(hl, 'HLoc')
    gi = find_func(hcls, '__getitem__')
    rets = [n for n in ast.walk(gi) if isinstance(n, ast.Return)]
    default_null = any(isinstance(r.value, ast.Name) and r.value.id == 'NULL_SLICE' for r in rets)
    hkm = find_func(hcls, 'has_key_multiple')
    uses_kmt = any(isinstance(n, ast.Name) and n.id == 'KEY_MULTIPLE_TYPES' for n in ast.walk(hkm))
    ut = parse('static_frame/core/util.py')
    kmt = None
    for n in ut.body:
        if isinstance(n, ast.Assign) and len(n.targets) == 1 and isinstance(n.targets[0], ast.Name) and n.targets[0].id == 'KEY_MULTIPLE_TYPES':
            if not isinstance(n.value, ast.Tuple):
                raise ValueError('KEY_MULTIPLE_TYPES is not a tuple literal')
            kmt = [e.id if isinstance(e, ast.Name) else (e.attr if isinstance(e, ast.Attribute) else ast.dump(e)) for e in n.value.elts]
    if kmt is None or not uses_kmt:
        raise ValueError('KEY_MULTIPLE_TYPES not found / not used by HLoc.has_key_multiple')
    # GO mutation
    go = find_class(il, 'IndexLevelGO')
    ap = find_func(go, 'append')
    last_edge = any(isinstance(n, ast.Assign) and ast.dump(n.value) == ast.dump(ast.parse('node.targets[-1]', mode='eval').body)
                    for n in ast.walk(ap))
    off_len = any(isinstance(n, ast.Assign) and len(n.targets) == 1
                  and ast.dump(n.targets[0]) == ast.dump(ast.parse('level_previous.offset', mode='eval').body).replace('Load()', 'Store()', 1)
                  or (isinstance(n, ast.Assign) and len(n.targets) == 1 and isinstance(n.targets[0], ast.Attribute)
                      and n.targets[0].attr == 'offset' and isinstance(n.targets[0].value, ast.Name) and n.targets[0].value.id == 'level_previous'
                      and ast.dump(n.value) == ast.dump(ast.parse('node.__len__()', mode='eval').body))
                  for n in ast.walk(ap))
    d = lambda src: ast.dump(ast.parse(src, mode='eval').body)
    # fix 5320f59: a present label that is not the last one of its (non-leaf) level is rejected before any mutation
    rejects = False
    for n in ast.walk(ap):
        if isinstance(n, ast.If):
            cmp_ok = any(isinstance(c, ast.Compare) and len(c.ops) == 1 and isinstance(c.ops[0], ast.NotEq)
                         and ast.dump(c.left) == d('node.index._loc_to_iloc(k)')
                         and ast.dump(c.comparators[0]) == d('node.index.__len__() - 1') for c in ast.walk(n.test))
            raises = any(isinstance(b, ast.Raise) and isinstance(b.exc, ast.Call) and isinstance(b.exc.func, ast.Name)
                         and b.exc.func.id == 'RuntimeError' for b in n.body)
            if cmp_ok and raises:
                rejects = True
    # the rejection must precede every mutation of the tree: no `.append(` call on index/targets before it in source order
    # fix cc33791: open slice ends bounded by the index's own extent when an offset applies
    ix = parse('static_frame/core/index.py')
    lm = find_func(find_class(ix, 'LocMap'), 'loc_to_iloc')
    bounded = False
    for n in ast.walk(lm):
        if isinstance(n, ast.If) and any(isinstance(x, ast.Name) and x.id == 'offset_apply' for x in ast.walk(n.test)):
            assigns = {(ast.dump(a.targets[0]), ast.dump(a.value)) for a in ast.walk(n) if isinstance(a, ast.Assign) and len(a.targets) == 1}
            st = (ast.dump(ast.Name('start', ast.Store())), d('offset'))
            sp = (ast.dump(ast.Name('stop', ast.Store())), d('len(positions) + offset'))
            if st in assigns and sp in assigns:
                bounded = True
    # fix 248eb88: membership answered at the leaf only when the key ends there
    ct = find_func(find_class(il, 'IndexLevel'), '__contains__')
    ends = any(isinstance(n, ast.Return) and n.value is not None and ast.dump(n.value) == d('key_depth == key_depth_max') for n in ast.walk(ct))
    loops = [n for n in ast.walk(ct) if isinstance(n, ast.For)]
    plain_true = any(isinstance(r, ast.Return) and is_true(r.value) for l in loops for r in ast.walk(l))
    ih = parse('static_frame/core/index_hierarchy.py')
    ihgo = find_class(ih, 'IndexHierarchyGO')

    def sets_recache(fname):
        f = find_func(ihgo, fname)
        return any(isinstance(n, ast.Assign) and len(n.targets) == 1 and isinstance(n.targets[0], ast.Attribute)
                   and n.targets[0].attr == '_recache' and is_true(n.value) for n in ast.walk(f))

    # IndexHierarchy.__init__: cached blocks of a source IndexHierarchy are handed over only when fresh
    init = find_func(find_class(ih, 'IndexHierarchy'), '__init__')
    fresh_only = False
    any_copy = 0
    for n in ast.walk(init):
        if isinstance(n, ast.If):
            copies = any(isinstance(a, ast.Assign) and ast.dump(a.value) == d('levels._blocks.copy()') for a in n.body)
            if copies:
                any_copy += 1
                fresh_only = ast.dump(n.test) == d('not levels._recache')
    if any_copy != 1:
        raise ValueError('expected exactly one hand-over of levels._blocks in IndexHierarchy.__init__')
    # Index._loc_to_iloc: the label map / positions are refreshed for EVERY key before LocMap.loc_to_iloc
    ixl = find_func(find_class(ix, 'Index'), '_loc_to_iloc')
    body = ixl.body
    refresh_all = False
    for i, st_ in enumerate(body):
        if isinstance(st_, ast.Return) and isinstance(st_.value, ast.Call) and ast.dump(st_.value.func) == d('LocMap.loc_to_iloc'):
            prev = body[i - 1]
            refresh_all = (isinstance(prev, ast.If) and ast.dump(prev.test) == d('self._recache') and len(prev.body) == 1
                           and isinstance(prev.body[0], ast.Expr) and ast.dump(prev.body[0].value) == d('self._update_array_cache()'))
    # every `X._update_array_cache()` call in index_hierarchy.py sits directly under `if X._recache:`; the methods
    # that refresh are listed, so a method that stops refreshing (or refreshes on another condition) changes the fact
    refreshers, all_guarded = [], True
    for cls_ in [n for n in ih.body if isinstance(n, ast.ClassDef)]:
        for f in [n for n in cls_.body if isinstance(n, ast.FunctionDef)]:
            guarded_calls, calls = 0, 0
            for n in ast.walk(f):
                if isinstance(n, ast.Call) and isinstance(n.func, ast.Attribute) and n.func.attr == '_update_array_cache':
                    calls += 1
            for n in ast.walk(f):
                if isinstance(n, ast.If):
                    for st_ in n.body:
                        if (isinstance(st_, ast.Expr) and isinstance(st_.value, ast.Call) and isinstance(st_.value.func, ast.Attribute)
                                and st_.value.func.attr == '_update_array_cache'):
                            obj = ast.dump(st_.value.func.value)
                            ok = (isinstance(n.test, ast.Attribute) and n.test.attr == '_recache' and ast.dump(n.test.value) == obj)
                            guarded_calls += 1 if ok else 0
            if calls:
                refreshers.append(f'{cls_.name}.{f.name}')
                if guarded_calls != calls:
                    all_guarded = False
    vad = find_func(find_class(ih, 'IndexHierarchy'), 'values_at_depth')
    first = [st_ for st_ in vad.body if not (isinstance(st_, ast.Expr) and isinstance(st_.value, ast.Constant))][0]
    vad_ok = (isinstance(first, ast.If) and ast.dump(first.test) == d('self._recache') and len(first.body) == 1
              and isinstance(first.body[0], ast.Expr) and ast.dump(first.body[0].value) == d('self._update_array_cache()'))
    b = lambda x: 'true' if x else 'false'
    text = '\n'.join([
        '(* GENERATED on every run by tools/sfv/props/c05.py:generate from the AST of /repo -- do not edit. *)',
        'Require Import SF.Prelude.',
        f'Definition gen_hloc_next_offset_is_sum : bool := {b(is_sum)}.',
        f'Definition gen_hloc_leaf_lookup_partial : bool := {b(is_true(kw(leaf[0], "partial_selection")))}.',
        f'Definition gen_hloc_leaf_lookup_offset : string := {lit.s(leaf_off_name)}.',
        f'Definition gen_hloc_node_lookup_partial : bool := {b(is_true(kw(node[0], "partial_selection")))}.',
        f'Definition gen_hloc_keyerror_pass_count : Z := {len(passes)}.',
        f'Definition gen_hloc_default_selector_is_null_slice : bool := {b(default_null)}.',
        f'Definition gen_key_multiple_types : list string := {lit.lst([lit.s(x) + "%string" for x in kmt])}.',
        f'Definition gen_go_append_descends_last_edge : bool := {b(last_edge)}.',
        f'Definition gen_go_append_new_offset_is_len : bool := {b(off_len)}.',
        f'Definition gen_go_append_rejects_non_last_label : bool := {b(rejects)}.',
        f'Definition gen_locmap_open_slice_ends_bounded : bool := {b(bounded)}.',
        f'Definition gen_contains_requires_key_end : bool := {b(ends and not plain_true)}.',
        f'Definition gen_ih_init_hands_over_blocks_only_if_fresh : bool := {b(fresh_only)}.',
        f'Definition gen_index_loc_refreshes_cache_for_every_key : bool := {b(refresh_all)}.',
        f'Definition gen_ih_values_at_depth_refreshes_iff_recache : bool := {b(vad_ok)}.',
        f'Definition gen_ih_every_cache_refresh_guarded_by_recache : bool := {b(all_guarded)}.',
        f'Definition gen_ih_methods_refreshing_cache : list string := {lit.lst([lit.s(x) + "%string" for x in sorted(refreshers)])}.',
        f'Definition gen_go_append_sets_recache : bool := {b(sets_recache("append"))}.',
        f'Definition gen_go_extend_sets_recache : bool := {b(sets_recache("extend"))}.',
        '',
    ])
    return {'Gen/Gen_c05.v': text}


# ----------------------------------------------------------------------------- literals
def canon(v):
    '''Label as a canonical Python value (str / int / np.datetime64[D]).'''
    if isinstance(v, (str, np.str_)):
        return str(v)
    if isinstance(v, (bool, np.bool_)):
        return bool(v)
    if isinstance(v, (int, np.integer)):
        return int(v)
    if isinstance(v, np.datetime64):
        return v.astype('datetime64[D]')
    if isinstance(v, datetime.date):
        return np.datetime64(v, 'D')
    return v


def jl(v):
    '''JSON-able form of a label.'''
    v = canon(v)
    return str(v) if isinstance(v, np.datetime64) else v


def lab(v):
    return lit.val(canon(v))


def row_lit(r):
    return lit.lst([lab(x) for x in r])


def rows_lit(rows):
    return lit.lst([row_lit(r) for r in rows])


def zl(xs):
    return lit.lst([lit.z(x) for x in xs])


def bl(xs):
    return lit.lst([lit.b(x) for x in xs])


def tree_of(level):
    '''Read the real IndexLevel tree: offsets, labels, targets.'''
    labels = [canon(x) for x in lit.array_vals(level.index.values)]
    if level.targets is None:
        return ('L', int(level.offset), labels)
    return ('N', int(level.offset), labels, [tree_of(t) for t in level.targets])


def tree_lit(t):
    if t[0] == 'L':
        return f'(Leaf {lit.z(t[1])} {lit.lst([lab(x) for x in t[2]])})'
    return f'(Node {lit.z(t[1])} {lit.lst([lab(x) for x in t[2]])} {lit.lst([tree_lit(k) for k in t[3]])})'


def tree_json(t):
    if t[0] == 'L':
        return [t[1], [jl(x) for x in t[2]]]
    return [t[1], [jl(x) for x in t[2]], [tree_json(k) for k in t[3]]]


def tree_leaves(t):
    return 1 if t[0] == 'L' else sum(tree_leaves(k) for k in t[3])


def sel_lit(s):
    k = s[0]
    if k == 'all':
        return 'SAll'
    if k == 'one':
        return f'(SOne {lab(s[1])})'
    if k == 'list':
        return f'(SList {lit.lst([lab(x) for x in s[1]])})'
    if k == 'slice':
        o = lambda x: 'None' if x is None else f'(Some {lab(x)})'
        return f'(SSlice {o(s[1])} {o(s[2])})'
    if k == 'mask':
        return f'(SMask {bl(s[1])})'
    if k == 'step':
        o = lambda x: 'None' if x is None else f'(Some {lab(x)})'
        return f'(SStep {o(s[1])} {o(s[2])} {lit.z(s[3])})'
    raise ValueError(s)


def sel_py(s):
    k = s[0]
    if k == 'all':
        return slice(None)
    if k == 'one':
        return s[1]
    if k == 'list':
        return list(s[1])
    if k == 'slice':
        return slice(s[1], s[2])
    if k == 'mask':
        return np.array(s[1], dtype=bool)
    if k == 'step':
        return slice(s[1], s[2], s[3])
    raise ValueError(s)


def sel_json(s):
    k = s[0]
    if k == 'one':
        return ['one', jl(s[1])]
    if k == 'list':
        return ['list', [jl(x) for x in s[1]]]
    if k == 'slice':
        return ['slice', None if s[1] is None else jl(s[1]), None if s[2] is None else jl(s[2])]
    if k == 'mask':
        return ['mask', [bool(x) for x in s[1]]]
    if k == 'step':
        return ['slice-with-step', None if s[1] is None else jl(s[1]), None if s[2] is None else jl(s[2]), s[3]]
    return ['all']


def key_lit(key):
    return lit.lst([sel_lit(s) for s in key])


def hloc_of(key, wrap=None, ih=None):
    '''HLoc for a key; `wrap` passes list / mask selectors as static-frame containers (unpacked by
    IndexHierarchy._loc_to_iloc through key_from_container_key): index | series | array | iloc.'''
    import static_frame as sf
    parts = []
    for s in key:
        v = sel_py(s)
        if wrap and s[0] == 'list':
            if wrap == 'index':
                v = sf.Index(s[1])
            elif wrap == 'series':
                v = sf.Series(s[1])
            elif wrap == 'array':
                v = np.array(s[1])
        elif wrap and s[0] == 'mask':
            if wrap in ('index', 'series'):
                v = sf.Series(s[1], index=ih)
            elif wrap == 'iloc':
                v = sf.ILoc[[i for i, b in enumerate(s[1]) if b]]
        parts.append(v)
    return sf.HLoc(tuple(parts))


def res_lit(fn, printer):
    try:
        out = fn()
    except Exception as e:  # noqa
        return f'(Err {lit.s(lit.err_class(e))})', e
    return f'(Ok {printer(out)})', out


def canon_iloc(r, n):
    '''Result of loc_to_iloc -> (single?, positions).'''
    if isinstance(r, (int, np.integer)):
        return True, [int(r)]
    if isinstance(r, slice):
        return False, list(range(*r.indices(n)))
    return False, [int(x) for x in r]


def hres_lit(single, ps):
    return f'({lit.b(single)}, {zl(ps)})'


# ----------------------------------------------------------------------------- generators
POOLS = {
    'str': ['a', 'b', 'c', 'd', 'e', 'f'],
    'int': [1, 2, 3, 4, 5, 6],
    'date': [EPOCH + np.timedelta64(18262 + k, 'D') for k in range(6)],     # 2020-01-01 ...
}


def gen_shape(rng, depth, kinds, fan_max, pool_n=6):
    '''Nested shape: inner = list of (label, sub); leaf = list of labels. Labels per depth from a small pool, random order.'''
    def rec(d):
        pool = POOLS[kinds[d]][:pool_n]
        k = rng.randint(1, min(fan_max, len(pool)))
        labels = rng.sample(pool, k)
        if d == depth - 1:
            return labels
        return [(l, rec(d + 1)) for l in labels]
    return rec(0)


def shape_rows(shape):
    out = []

    def rec(node, pre):
        for item in node:
            if isinstance(item, tuple):
                rec(item[1], pre + (item[0],))
            else:
                out.append(pre + (item,))
    rec(shape, ())
    return out


def shape_tree(shape):
    '''dict-of-dicts / lists form for IndexHierarchy.from_tree.'''
    if shape and isinstance(shape[0], tuple):
        return {l: shape_tree(s) for l, s in shape}
    return list(shape)


def gen_kinds(rng, depth):
    ks = [rng.choice(['str', 'int', 'str', 'int', 'date']) for _ in range(depth)]
    return ks


def small_trees_depth2():
    '''All depth-2 trees: root labels a | a,b ; leaf = non-empty sequence of <= 2 distinct labels of {1,2,3}.'''
    leaves = [list(p) for n in (1, 2) for p in itertools.permutations([1, 2, 3], n)]
    for l1 in leaves:
        yield [('a', l1)]
    for l1 in leaves:
        for l2 in leaves:
            yield [('a', l1), ('b', l2)]


def selector_menu(pool, n_rows, inner, rng=None, masks=2):
    menu = [('all',)]
    menu += [('one', l) for l in pool]
    menu += [('list', list(p)) for n in (1, 2) for p in itertools.permutations(pool, n)]
    ends = [None] + list(pool)
    menu += [('slice', a, b) for a in ends for b in ends if not (a is None and b is None)]
    if inner and rng is not None:
        for _ in range(masks):
            m = [rng.random() < 0.5 for _ in range(n_rows)]
            if not any(m):
                m[rng.randrange(n_rows)] = True
            menu.append(('mask', m))
    return menu


def gen_sel(rng, pool, n_rows, inner, group_labels=None):
    '''A random selector for one depth; biased to labels that exist.'''
    r = rng.random()
    src = group_labels if (group_labels and rng.random() < 0.7) else pool
    if r < 0.2:
        return ('all',)
    if r < 0.45:
        return ('one', rng.choice(src))
    if r < 0.7:
        k = rng.randint(1, min(3, len(pool)))
        return ('list', rng.sample(pool, k))
    if inner and 0.78 <= r < 0.9 and group_labels:
        # a label slice with a step at the innermost depth; end points biased to the first / last label of the leaf
        ends = [group_labels[0], group_labels[-1], rng.choice(group_labels), rng.choice(list(pool))]
        a = rng.choice(ends + [None]) if rng.random() < 0.25 else rng.choice(ends)
        b = rng.choice(ends + [None]) if rng.random() < 0.25 else rng.choice(ends)
        return ('step', a, b, rng.choice([-2, -1, -1, 1, 2]))
    if r < 0.9 or not inner:
        a = rng.choice([None] + list(src))
        b = rng.choice([None] + list(src))
        if a is None and b is None:
            return ('all',)
        return ('slice', a, b)
    m = [rng.random() < 0.5 for _ in range(n_rows)]
    if not any(m):
        m[rng.randrange(n_rows)] = True
    return ('mask', m)


# ----------------------------------------------------------------------------- construction routes
def build_routes(rows, shape, kinds):
    '''name -> thunk building an IndexHierarchy that must denote `rows`.'''
    import static_frame as sf
    IH, IHGO = sf.IndexHierarchy, sf.IndexHierarchyGO
    depth = len(kinds)
    routes = {}
    routes['from_labels'] = lambda: IH.from_labels(rows)
    routes['from_labels_gen'] = lambda: IH.from_labels(iter(rows))
    routes['from_tree'] = lambda: IH.from_tree(shape_tree(shape))
    routes['go_from_labels'] = lambda: IHGO.from_labels(rows)
    routes['go_from_tree'] = lambda: IHGO.from_tree(shape_tree(shape))
    routes['static_of_go'] = lambda: IH(IHGO.from_labels(rows))
    routes['go_of_static'] = lambda: IHGO(IH.from_labels(rows))
    routes['copy'] = lambda: IH.from_labels(rows).copy()
    routes['iloc_all'] = lambda: IH.from_labels(rows).iloc[0:len(rows)] if len(rows) > 1 else IH.from_labels(rows)
    routes['iloc_list'] = lambda: IH.from_labels(rows).iloc[list(range(len(rows)))] if len(rows) > 1 else IH.from_labels(rows)
    routes['array2d'] = lambda: IH.from_labels(np.array([list(r) for r in rows], dtype=object))
    routes['frame_set_index'] = lambda: sf.Frame.from_records([list(r) + [0] for r in rows]).set_index_hierarchy(list(range(depth)), drop=True).index
    routes['frame_records_index'] = lambda: sf.Frame.from_records([[i] for i in range(len(rows))], index=IH.from_labels(rows)).index
    routes['series_index'] = lambda: sf.Series(range(len(rows)), index=IH.from_labels(rows)).index
    ctors = [sf.IndexDate if k == 'date' else sf.Index for k in kinds]
    routes['index_constructors'] = lambda: IH.from_labels(rows, index_constructors=ctors)
    routes['go_appends'] = lambda: _by_appends(rows)
    routes['rehierarch_identity'] = lambda: IH.from_labels(rows).rehierarch(list(range(depth))) if _sorted_for_rehierarch(rows) else IH.from_labels(rows)
    if depth == 2:
        routes['from_index_items'] = lambda: IH.from_index_items((l, sf.Index(sub)) for l, sub in shape)
    if all(k in ('str', 'int') for k in kinds):
        routes['from_labels_delimited'] = lambda: IH.from_labels_delimited([' '.join(repr(x) for x in r) for r in rows])
    if depth >= 3:
        # add the outer level to the hierarchy of the tails (only when all rows share the first label)
        if len({r[0] for r in rows}) == 1:
            routes['level_add'] = lambda: IH.from_labels([r[1:] for r in rows]).level_add(rows[0][0])
    return routes


def _sorted_for_rehierarch(rows):
    return False        # rehierarch sorts labels; identity only for already sorted inputs -- not used as a route


def _by_appends(rows):
    import static_frame as sf
    g = sf.IndexHierarchyGO.from_labels(rows[:1])
    for r in rows[1:]:
        g.append(r)
    return g


def is_product(shape):
    if not shape or not isinstance(shape[0], tuple):
        return True
    first = shape[0][1]
    return all(s == first for _, s in shape) and is_product(first)


def product_levels(shape):
    out = []
    node = shape
    while node and isinstance(node[0], tuple):
        out.append([l for l, _ in node])
        node = node[0][1]
    out.append(list(node))
    return out


# ----------------------------------------------------------------------------- observations of one index
def observe_views(ctx, ih, rows, route, extra_tags=None):
    '''Cases comparing every view of `ih` with the tree model M (fed the real tree) and the tuple spec S.
    A view that raises on a successfully built index is itself a violation (reported, never a harness crash).'''
    done = []
    try:
        for c in _observe_views(ctx, ih, rows, route, extra_tags):
            done.append(c.kind)
            yield c
    except Exception as e:  # noqa
        import traceback
        where = traceback.extract_tb(e.__traceback__)[-1]
        yield Case('api:views:raised', {'route': route, 'rows': [[jl(x) for x in r] for r in rows],
                                        'observe': 'list(ih), values, values_at_depth, label_widths_at_depth, iloc', 'after': done[-1:] },
                   py_fail=f'a view of an index built through {route} raised {type(e).__name__}: {e} ({where.name}:{where.lineno})',
                   tags={'route': route, 'view': 'raised'}, key=f'raised|{route}|{rows_lit(rows)}')


def iter_label_observe(ih, depth):
    '''iter_label(d) for every depth and iter_label([..]) for depth lists; touches no cache.'''
    fresh = bool(ih._recache)
    out = {'fresh': fresh, 'single': [], 'multi': []}
    for d in range(depth):
        try:
            out['single'].append([canon(x) for x in ih.iter_label(d)])
        except Exception as e:  # noqa
            out['single'].append(e)
    for ds in (list(range(depth)), [depth - 1, 0]):
        try:
            out['multi'].append((ds, [tuple(canon(x) for x in t) for t in ih.iter_label(ds)]))
        except Exception as e:  # noqa
            out['multi'].append((ds, e))
    return out


def iter_label_cases(ctx, ih, tree, rows, route, stratum, base, tags, obs=None):
    depth = len(rows[0])
    obs = obs if obs is not None else iter_label_observe(ih, depth)
    tl, rl = tree_lit(tree), rows_lit(rows)
    fresh = obs['fresh']
    wide = max_outer_fan(tree)
    ctx.count(f'iter_label:{"tree" if fresh else "table"}', f'outer-fan:{min(wide, 6)}')
    for d, col in enumerate(obs['single']):
        t = dict(tags, view='iter_label', d=d, fresh=fresh)
        desc = dict(base, observe=f'list(ih.iter_label({d}))' + (' before the table is built' if fresh else ''))
        if isinstance(col, Exception):
            yield Case(stratum, desc, py_fail=f'iter_label({d}) raised {type(col).__name__}: {col}'[:300], tags=t, key=f'il{d}|{route}|{rl}|{json_key(base.get("history"))}')
            continue
        cl = lit.lst([lab(x) for x in col])
        yield Case(stratum, dict(desc, observed=[jl(x) for x in col]),
                   m=(f'check_labels_M {tl} {d} {cl}' if fresh else f'check_col_M {tl} {d} {cl}'), s=f'check_col_S {rl} {d} {cl}',
                   tags=t, nontrivial=wide >= 4, key=f'il{d}|{fresh}|{route}|{rl}|{json_key(base.get("history"))}')
    problems = []
    for ds, got in obs['multi']:
        if isinstance(got, Exception):
            problems.append(f'iter_label({ds}) raised {type(got).__name__}: {got}')
            continue
        want = [tuple(canon(r[d]) for d in ds) for r in rows]
        if [row_lit(r) for r in got] != [row_lit(r) for r in want]:
            problems.append(f'iter_label({ds}) yields {len(got)} tuples, differs from the projection of the {len(rows)} label tuples')
    yield Case(stratum + ':depth_list', dict(base, observe='list(ih.iter_label([d0, d1, ...]))', fresh=fresh),
               py_fail='; '.join(problems)[:400] or None, tags=dict(tags, view='iter_label_list', fresh=fresh),
               nontrivial=wide >= 4, key=f'ill|{fresh}|{route}|{rl}|{json_key(base.get("history"))}')


def max_outer_fan(t):
    '''Largest number of children of a non-leaf node.'''
    if t[0] == 'L':
        return 0
    return max([len(t[3])] + [max_outer_fan(k) for k in t[3]])


def _observe_views(ctx, ih, rows, route, extra_tags=None):
    tags = {'route': route}
    tags.update(extra_tags or {})
    tree = tree_of(ih._levels)
    tl = tree_lit(tree)
    rl = rows_lit(rows)
    depth = len(rows[0])
    n = len(rows)
    nontrivial = tree_leaves(tree) > 1
    base = {'route': route, 'rows': [[jl(x) for x in r] for r in rows]}
    ctx.count(f'depth:{depth}', f'rows:{min(n, 20)}', f'route:{route}')

    # -- iter_label FIRST: while the 2-D table is not built it runs IndexLevel.labels_at_depth
    yield from iter_label_cases(ctx, ih, tree, rows, route, 'api:views:iter_label', base, tags)

    # -- python-side consistency of the cheap views
    problems = []
    if len(ih) != n:
        problems.append(f'len {len(ih)} != {n}')
    if ih.depth != depth:
        problems.append(f'depth {ih.depth} != {depth}')
    if tuple(ih.shape) != (n, depth):
        problems.append(f'shape {ih.shape}')
    obs_rows = [tuple(canon(x) for x in r) for r in ih]
    vals2d = [tuple(canon(x) for x in r) for r in ih.values.tolist()] if n else []
    want = [tuple(canon(x) for x in r) for r in rows]
    if [row_lit(r) for r in vals2d] != [row_lit(r) for r in want]:
        problems.append(f'values rows {vals2d[:4]}.. differ from the tuples')
    for i in {0, n - 1, n // 2}:
        got = tuple(canon(x) for x in ih.iloc[i])
        if row_lit(got) != row_lit(want[i]):
            problems.append(f'iloc[{i}] = {got}')
    yield Case('api:views:iter', dict(base, observe='list(ih), len, depth, shape, values, iloc[i]', observed=[[jl(x) for x in r] for r in obs_rows]),
               m=f'check_iter_M {tl} {rows_lit(obs_rows)} && wf_obs {tl} && (lv_len {tl} =? {n})',
               s=f'rows_eqb {rows_lit(obs_rows)} {rl}',
               py_fail='; '.join(problems) or None, tags=dict(tags, view='iter'), nontrivial=nontrivial,
               key=f'iter|{route}|{rl}')
    for d in range(depth):
        col = [canon(x) for x in lit.array_vals(ih.values_at_depth(d))]
        cl = lit.lst([lab(x) for x in col])
        yield Case('api:views:values_at_depth', dict(base, observe=f'ih.values_at_depth({d})', observed=[jl(x) for x in col]),
                   m=f'check_col_M {tl} {d} {cl}', s=f'check_col_S {rl} {d} {cl}',
                   tags=dict(tags, view='column', d=d), nontrivial=nontrivial, key=f'col{d}|{route}|{rl}')
        ws = [(canon(l), int(w)) for l, w in ih.label_widths_at_depth(d)]
        wl = lit.lst([f'({lab(l)}, {lit.z(w)})' for l, w in ws])
        yield Case('api:views:label_widths', dict(base, observe=f'ih.label_widths_at_depth({d})', observed=[[jl(l), w] for l, w in ws]),
                   m=f'check_widths_M {tl} {d} {wl}', s=f'check_widths_S {rl} {d} {wl}',
                   tags=dict(tags, view='widths', d=d), nontrivial=nontrivial, key=f'w{d}|{route}|{rl}')


def probe_keys(rng, rows, kinds, k_absent=6):
    '''Present tuples and near misses (labels that exist under a different parent, wrong order, short, long).'''
    depth = len(kinds)
    present = list(rows) if len(rows) <= 12 else rng.sample(rows, 12)
    keys = [(tuple(r), 'present') for r in present]
    seen = {row_lit(r) for r in rows}
    tries = 0
    while len(keys) < len(present) + k_absent and tries < 60:
        tries += 1
        r = list(rng.choice(rows))
        d = rng.randrange(depth)
        r[d] = rng.choice([rng.choice(rows)[d], rng.choice(POOLS[kinds[d]])])
        if row_lit(r) not in seen:
            keys.append((tuple(r), 'absent'))
    r = rng.choice(rows)
    keys.append((tuple(r[:-1]), 'short'))
    keys.append((tuple(r) + (r[-1],), 'long'))
    return keys


def observe_lookup(ctx, rng, ih, rows, kinds, route):
    tree = tree_of(ih._levels)
    tl, rl = tree_lit(tree), rows_lit(rows)
    keys = probe_keys(rng, rows, kinds)
    base = {'route': route, 'rows': [[jl(x) for x in r] for r in rows]}
    for cls in ('present', 'absent', 'short', 'long'):
        ks = [k for k, c in keys if c == cls]
        if not ks:
            continue
        kl = lit.lst([row_lit(k) for k in ks])
        got_in = [bool(k in ih) for k in ks]
        ctx.count(f'key:{cls}')
        tags = {'route': route, 'view': 'contains', 'keyclass': cls}
        yield Case('api:lookup:contains', dict(base, observe='key in ih', keys=[[jl(x) for x in k] for k in ks], observed=got_in),
                   m=f'check_contains_M {tl} {kl} {bl(got_in)}', s=f'check_contains_S {rl} {kl} {bl(got_in)}',
                   tags=tags, nontrivial=True, key=f'in|{cls}|{route}|{rl}|{kl}')
        outs = []
        for k in ks:
            txt, _ = res_lit(lambda: ih.loc_to_iloc(k), lambda v: lit.z(int(v)))
            outs.append(txt)
        ol = lit.lst(outs)
        yield Case('api:lookup:loc_to_iloc_tuple', dict(base, observe='ih.loc_to_iloc(tuple)', keys=[[jl(x) for x in k] for k in ks], observed=outs),
                   m=f'check_lookup_M {tl} {kl} {ol}', s=f'check_lookup_S {rl} {kl} {ol}',
                   tags={'route': route, 'view': 'lookup', 'keyclass': cls}, nontrivial=True, key=f'loc|{cls}|{route}|{rl}|{kl}')


# ----------------------------------------------------------------------------- HLoc
def open_inner_slice(key, depth):
    '''Regression class (defect repaired by cc33791): the innermost selector is a half-open label slice.'''
    if len(key) < depth:
        return False
    s = key[depth - 1]
    return s[0] == 'slice' and ((s[1] is None) != (s[2] is None))


def json_key(x):
    import json
    return json.dumps(x, sort_keys=True, default=str) if x else ''


def visited_leaves(rows, key, depth):
    '''(lo, labels) of every leaf the resolution reaches, in visiting order, for outer selectors `:` / label / list of
    labels / label slice without a step; None when an outer selector is of another kind or names an absent slice end
    (the recorded wrong result is then not modelled here and nothing is excused).'''
    outer = [key[d] if d < len(key) else ('all',) for d in range(depth - 1)]

    def groups(lo, hi, d):
        out, i = [], lo
        while i < hi:
            j = i
            while j < hi and lab(rows[j][d]) == lab(rows[i][d]):
                j += 1
            out.append((rows[i][d], i, j))
            i = j
        return out

    def rec(lo, hi, d):
        if d == depth - 1:
            return [(lo, [r[-1] for r in rows[lo:hi]])]
        gs = groups(lo, hi, d)
        names = [lab(g[0]) for g in gs]
        s_ = outer[d]
        if s_[0] == 'all':
            pick = list(range(len(gs)))
        elif s_[0] == 'one':
            pick = [names.index(lab(s_[1]))] if lab(s_[1]) in names else []
        elif s_[0] == 'list':
            pick = [names.index(lab(x)) for x in s_[1] if lab(x) in names]
        elif s_[0] == 'slice':
            a, b = s_[1], s_[2]
            if (a is not None and lab(a) not in names) or (b is not None and lab(b) not in names):
                return None
            pick = list(range(0 if a is None else names.index(lab(a)), len(gs) if b is None else names.index(lab(b)) + 1))
        else:
            return None
        out = []
        for i in pick:
            sub = rec(gs[i][1], gs[i][2], d + 1)
            if sub is None:
                return None
            out += sub
        return out
    return rec(0, len(rows), 0)


def recorded_wrong_positions(finding, rows, key, depth):
    '''The positions the UNCHANGED implementation is recorded to return for an input of the finding's class (a small model
    of each defect). A known-finding tag is set only when the observation equals this; any other failure is reported.'''
    n = len(rows)
    leaves = visited_leaves(rows, key, depth)
    if leaves is None or len(key) < depth:
        return None
    s_ = key[depth - 1]
    out = []
    for lo, labels in leaves:
        pos = {lab(x): i for i, x in enumerate(labels)}
        if finding in ('C05-hloc-open-neg-step-slice', 'C05-hloc-neg-step-datetime'):
            _, a, b, k = s_
            if (a is not None and lab(a) not in pos) or (b is not None and lab(b) not in pos):
                return None                                   # LocInvalid: not the recorded outcome
            start = None if a is None else pos[lab(a)] + lo
            if b is None:
                stop = None
            elif finding == 'C05-hloc-neg-step-datetime':
                stop = pos[lab(b)] + lo + 1                    # datetime64 branch: always pos + 1
            else:
                p_ = pos[lab(b)] + lo
                stop = None if p_ - 1 < 0 else p_ - 1
            out += list(range(*slice(start, stop, k).indices(n)))          # open ends are NOT bounded by the leaf
        elif finding == 'C05-hloc-auto-integer-leaf':
            if s_[0] == 'one':
                out.append(int(s_[1]) + lo)                   # key + offset, no membership test
            elif s_[0] == 'list':
                out += [int(x) + lo for x in s_[1]]
            elif s_[0] == 'slice':
                a, b = s_[1], s_[2]
                out += list(range(*slice(None if a is None else a + lo, None if b is None else b + 1 + lo).indices(n)))
            else:
                return None
    return out


def step_finding(key, depth, kinds=None):
    '''Input classes (by construction of the key) of the two open findings on stepped label slices.'''
    if len(key) < depth or key[depth - 1][0] != 'step':
        return None
    _, a, b, k = key[depth - 1]
    if k < 0 and isinstance(a if a is not None else b, np.datetime64):
        return 'C05-hloc-neg-step-datetime'
    if k < 0 and (a is None or b is None):
        return 'C05-hloc-open-neg-step-slice'
    return None


def hloc_observe(ih, key, n, wrap=None):
    def run():
        return canon_iloc(ih.loc_to_iloc(hloc_of(key, wrap, ih)), n)
    return res_lit(run, lambda v: hres_lit(*v))


def hloc_case(ctx, ih, tree, rows, key, route, stratum='api:hloc:loc_to_iloc', wrap=None, obs=None, extra=None):
    depth = len(rows[0])
    n = len(rows)
    tl, rl, kl = tree_lit(tree), rows_lit(rows), key_lit(key)
    txt, out = obs if obs is not None else hloc_observe(ih, key, n, wrap)
    py_fail = (extra or {}).pop('_py_fail', None) if extra else None
    kinds = '+'.join(s[0] for s in key)
    ctx.count(f'hloc:{kinds}' if len(kinds) < 40 else 'hloc:long', 'hloc:err' if isinstance(out, Exception) else 'hloc:ok')
    tags = {'route': route, 'op': 'hloc'}
    if wrap:
        tags['wrap'] = wrap
        ctx.count(f'hloc-wrap:{wrap}')
    if open_inner_slice(key, depth):
        tags['open_inner_slice'] = True      # regression class of the repaired defect cc33791
    sfnd = step_finding(key, depth)
    if sfnd:
        # excuse only the recorded wrong result of that defect; the class alone excuses nothing
        rec = recorded_wrong_positions(sfnd, rows, key, depth)
        tags['finding_class'] = sfnd
        if rec is not None and not isinstance(out, Exception) and list(out[1]) == rec:
            tags['finding'] = sfnd
    outer_mask = any(s[0] in ('mask', 'step') for s in key[:depth - 1]) if len(key) >= 1 else False
    if sfnd == 'C05-hloc-neg-step-datetime':
        tl = None        # M models the generic branch of map_slice_args; the datetime64 branch differs (finding)
    nontrivial = (not isinstance(out, Exception)) and len(out[1]) > 0 and tree_leaves(tree) > 1
    return Case(stratum,
                {'route': route, 'rows': [[jl(x) for x in r] for r in rows],
                 'call': 'ih.loc_to_iloc(HLoc[key])' + (f' with list/mask selectors passed as {wrap}' if wrap else ''),
                 'key': [sel_json(s) for s in key], 'observed': txt, **(extra or {})},
                m=None if (outer_mask or tl is None) else f'check_hloc_M {tl} {kl} {txt}',
                s=None if outer_mask else f'check_hloc_S {rl} {kl} {txt}', py_fail=py_fail,
                tags=tags, nontrivial=nontrivial, key=f'hloc|{wrap}|{rl}|{kl}|{json_key(extra)}')


def extract_cases(ctx, ih, rows, key, route, only=None, extra=None):
    '''ih.loc / Series / Frame selection with the same HLoc: labels and payload of the selected rows.'''
    import static_frame as sf
    n = len(rows)
    depth = len(rows[0])
    rl, kl = rows_lit(rows), key_lit(key)
    payload = list(range(100, 100 + n))
    pl = zl(payload)
    want = {row_lit(r): i for i, r in enumerate(rows)}
    tags = {'route': route, 'op': 'extract'}
    recorded = recorded_wrong_positions(step_finding(key, depth), rows, key, depth) if step_finding(key, depth) else None
    if open_inner_slice(key, depth):
        tags['open_inner_slice'] = True      # regression class of the repaired defect cc33791
    h = hloc_of(key)

    def pr(v):
        single, rws, vals = v
        return f'({lit.b(single)}, {rows_lit(rws)}, {zl(vals)})'

    def via_index():
        r = ih.loc[h]
        if isinstance(r, tuple):
            return True, [r], [payload[want[row_lit(tuple(canon(x) for x in r))]]]
        rws = [tuple(canon(x) for x in t) for t in r]
        return False, rws, [payload[want[row_lit(t)]] for t in rws]

    def via_series():
        s = sf.Series(payload, index=ih)
        r = s[h]
        if isinstance(r, sf.Series):
            return False, [tuple(canon(x) for x in t) for t in r.index], [int(x) for x in r.values]
        return True, [], [int(r)]

    def via_series_loc():
        s = sf.Series(payload, index=ih)
        r = s.loc[h]
        if isinstance(r, sf.Series):
            return False, [tuple(canon(x) for x in t) for t in r.index], [int(x) for x in r.values]
        return True, [], [int(r)]

    def via_frame():
        f = sf.Frame.from_dict({'p': payload, 'q': [str(x) for x in payload]}, index=ih)
        r = f.loc[h]
        if isinstance(r, sf.Frame):
            if [int(x) for x in r['p'].values] != [int(x) for x in r['q'].values]:
                raise AssertionError('rows torn apart')
            return False, [tuple(canon(x) for x in t) for t in r.index], [int(x) for x in r['p'].values]
        return True, [], [int(r['p'])]

    def via_frame_columns():
        f = sf.Frame.from_records([payload, [2 * x for x in payload]], columns=ih)
        r = f[h]
        if isinstance(r, sf.Frame):
            return False, [tuple(canon(x) for x in t) for t in r.columns], [int(x) for x in r.iloc[0].values]
        return True, [], [int(r.iloc[0])]

    def via_frame_col_sel():
        f = sf.Frame.from_dict({'p': payload, 'q': [2 * x for x in payload]}, index=ih)
        r = f.loc[h, 'p']
        if isinstance(r, sf.Series):
            return False, [tuple(canon(x) for x in t) for t in r.index], [int(x) for x in r.values]
        return True, [], [int(r)]

    for name, fn in (('ih.loc', via_index), ('series.getitem', via_series), ('series.loc', via_series_loc),
                     ('frame.loc', via_frame), ('frame.getitem_columns', via_frame_columns), ('frame.loc_col', via_frame_col_sel)):
        if only is not None and name not in only:
            continue
        txt, out = res_lit(fn, pr)
        tags = dict(tags)
        tags.pop('finding', None)
        if recorded is not None and not isinstance(out, Exception) and not out[0]:
            # the recorded wrong result: exactly the rows at the recorded wrong positions (labels and payload together)
            if [int(v) for v in out[2]] == [payload[p_] for p_ in recorded if 0 <= p_ < n] and \
                    [row_lit(r) for r in out[1]] == [row_lit(rows[p_]) for p_ in recorded if 0 <= p_ < n]:
                tags['finding'] = step_finding(key, depth)
        elif recorded is not None and isinstance(out, Exception) and lit.err_class(out) == 'ErrorInitIndex':
            # the direct consequence of the recorded wrong positions: those rows do not form a hierarchy (not tree ordered /
            # repeated), so building the result raises ErrorInitIndex -- excused only when exactly that is the case
            try:
                sf.IndexHierarchy.from_labels([rows[p_] for p_ in recorded if 0 <= p_ < n])
            except Exception as e2:  # noqa
                if lit.err_class(e2) == 'ErrorInitIndex':
                    tags['finding'] = step_finding(key, depth)
                    tags['outcome'] = 'raises:ErrorInitIndex (rows at the recorded wrong positions are no hierarchy)'
        ctx.count(f'extract:{name}')
        # a single selection carries no labels in the Series/Frame forms: compare the payload only
        if not isinstance(out, Exception) and out[0] and not out[1]:
            s_term = (f'match S_extract {rl} {pl} {kl} with Err _ => true | Ok (sg, _, vs) => '
                      f'Bool.eqb sg true && zlist_eqb vs {zl(out[2])} end')
        else:
            s_term = f'check_extract_S {rl} {pl} {kl} {txt}'
        yield Case(f'api:extract:{name}',
                   {'route': route, 'rows': [[jl(x) for x in r] for r in rows], 'call': f'{name}[HLoc[key]] (payload 100+position)',
                    'key': [sel_json(s) for s in key], 'observed': txt, **(extra or {})},
                   s=s_term, tags=dict(tags, via=name),
                   nontrivial=not isinstance(out, Exception), key=f'ext|{name}|{rl}|{kl}|{json_key(extra)}')


def random_key(rng, rows, kinds, allow_short=True):
    depth = len(kinds)
    n = len(rows)
    klen = depth if (not allow_short or rng.random() < 0.75) else rng.randint(1, depth - 1)
    anchor = rng.choice(rows)
    key = []
    for d in range(klen):
        pool = POOLS[kinds[d]][:5]
        group = list({jl(r[d]): r[d] for r in rows if r[:d] == anchor[:d]}.items())      # index order
        key.append(gen_sel(rng, pool, n, inner=(d == depth - 1), group_labels=[v for _, v in group]))
    return key


# ----------------------------------------------------------------------------- strata
FIXED_ROWS = [('a', 1, 'x'), ('a', 1, 'y'), ('a', 2, 'x'), ('b', 1, 'z'), ('b', 3, 'x'), ('b', 3, 'y'), ('c', 2, 'y')]


def corpus_cases(ctx):
    '''Minimal witnesses of the known findings + regression keys; always generated first.'''
    import static_frame as sf
    ih = sf.IndexHierarchy.from_labels(FIXED_ROWS)
    tree = tree_of(ih._levels)
    kinds = ['str', 'int', 'str']
    for key in ([('one', 'b'), ('one', 3), ('slice', None, 'x')],
                [('one', 'b'), ('one', 3), ('slice', 'y', None)],
                [('all',), ('list', [3, 1])],
                [('list', ['b', 'a']), ('all',), ('one', 'x')],
                [('one', 'b'), ('one', 3), ('one', 'y')],
                [('one', 'a'), ('one', 1)],
                [('all',), ('all',), ('mask', [True, False, False, True, False, False, True])],
                [('slice', 'b', None)],
                [('one', 'b'), ('slice', 1, 3), ('list', ['y', 'z', 'x'])]):
        yield hloc_case(ctx, ih, tree, FIXED_ROWS, key, 'corpus', stratum='corpus:hloc')
        yield from extract_cases(ctx, ih, FIXED_ROWS, key, 'corpus')
    yield from observe_views(ctx, ih, FIXED_ROWS, 'corpus')
    # nodes with >= 4 children at a non-innermost depth: iter_label / label widths before the table is built
    wide2 = [(o, i) for o, n_ in (('a', 2), ('b', 1), ('c', 3), ('d', 2), ('e', 1), ('f', 2)) for i in range(1, n_ + 1)]
    wide3 = [('p', o, i) for o, i in wide2[:7]] + [('q', 'a', 1), ('q', 'b', 1), ('q', 'c', 1), ('q', 'd', 2), ('q', 'e', 1)]
    for wrows in (wide2, wide3):
        for cls in (sf.IndexHierarchy, sf.IndexHierarchyGO):
            yield from observe_views(ctx, cls.from_labels(wrows), wrows, 'corpus-wide')
    # label slices with a step at the innermost depth (the coordinator's example: stop label = first label of a leaf
    # that does not start at position 0)
    srows = [('a', 1), ('a', 2), ('a', 3), ('b', 1), ('b', 2), ('b', 3), ('b', 4), ('c', 2), ('c', 3)]
    sih = sf.IndexHierarchy.from_labels(srows)
    stree = tree_of(sih._levels)
    for key in ([('one', 'b'), ('step', 3, 1, -1)], [('one', 'b'), ('step', 4, 1, -2)], [('one', 'b'), ('step', 1, 4, 2)],
                [('one', 'c'), ('step', 3, 2, -1)], [('all',), ('step', 3, 2, -1)], [('one', 'b'), ('step', None, None, 2)],
                [('one', 'b'), ('step', 2, None, 2)], [('one', 'b'), ('step', 1, 3, -1)], [('list', ['c', 'a']), ('step', 3, 2, -1)],
                # open ends walking down: finding C05-hloc-open-neg-step-slice
                [('one', 'b'), ('step', None, 2, -1)], [('one', 'b'), ('step', 3, None, -1)], [('one', 'b'), ('step', None, None, -1)]):
        yield hloc_case(ctx, sih, stree, srows, key, 'corpus', stratum='corpus:hloc')
        yield from extract_cases(ctx, sih, srows, key, 'corpus', only=('series.loc', 'frame.loc'))
    # datetime64 level walking down: finding C05-hloc-neg-step-datetime
    D = POOLS['date']
    drows = [('a', D[0]), ('a', D[1]), ('b', D[0]), ('b', D[1]), ('b', D[2])]
    dih = sf.IndexHierarchy.from_labels(drows)
    for key in ([('one', 'b'), ('step', D[2], D[0], -1)], [('one', 'b'), ('step', D[0], D[2], 2)]):
        yield hloc_case(ctx, dih, tree_of(dih._levels), drows, key, 'corpus', stratum='corpus:hloc')
    # overlong key membership
    ks = [('a', 1, 'x', 'x')]
    kl = lit.lst([row_lit(k) for k in ks])
    got = [bool(k in ih) for k in ks]
    yield Case('corpus:contains', {'rows': [list(r) for r in FIXED_ROWS], 'observe': "('a',1,'x','x') in ih", 'observed': got},
               m=f'check_contains_M {tree_lit(tree)} {kl} {bl(got)}', s=f'check_contains_S {rows_lit(FIXED_ROWS)} {kl} {bl(got)}',
               tags={'route': 'corpus', 'view': 'contains', 'keyclass': 'long'})
    # D4
    yield from go_history(ctx, None, [('a', 1), ('b', 1)], ['str', 'int'], [('append', ('a', 2), 'd4')], 'corpus:go')


def construct_cases(ctx):
    rng = ctx.rng
    n_trees = ctx.n(14, 90)
    for i in range(n_trees):
        depth = rng.choice([2, 2, 3, 3, 3, 4])
        kinds = gen_kinds(rng, depth)
        shape = gen_shape(rng, depth, kinds, fan_max=rng.choice([2, 3, 4, 6]) if depth < 4 else 2)
        rows = shape_rows(shape)
        routes = build_routes(rows, shape, kinds)
        names = sorted(routes)
        chosen = names if ctx.tier == 'thorough' and i % 4 == 0 else rng.sample(names, min(4, len(names)))
        for name in chosen:
            if 'date' in kinds and name in ('array2d', 'frame_set_index', 'from_labels_delimited'):
                continue        # object arrays / records of datetime64 change the label class (C07's business)
            rl = rows_lit(rows)
            txt, ih = res_lit(routes[name], lambda v: tree_lit(tree_of(v._levels)))
            ctx.count(f'construct:{name}')
            yield Case('api:construct', {'route': name, 'rows': [[jl(x) for x in r] for r in rows], 'observe': 'tree (labels, offsets, targets) of ih._levels', 'observed': txt},
                       m=f'check_from_labels_M {rl} {txt}',
                       py_fail=f'construction through {name} raised {type(ih).__name__}: {ih}' if isinstance(ih, Exception) else None,
                       tags={'route': name, 'op': 'construct'}, nontrivial=len(rows) > 1, key=f'construct|{name}|{rl}')
            if isinstance(ih, Exception):
                continue
            yield from observe_views(ctx, ih, rows, name)
            if rng.random() < 0.5:
                yield from observe_lookup(ctx, rng, ih, rows, kinds, name)
        if is_product(shape) and len(rows) > 1:
            import static_frame as sf
            lv = product_levels(shape)
            for cls, nm in ((sf.IndexHierarchy, 'from_product'), (sf.IndexHierarchyGO, 'go_from_product')):
                ih = cls.from_product(*lv)
                yield Case('api:construct', {'route': nm, 'levels': [[jl(x) for x in l] for l in lv]},
                           m=f'check_from_labels_M {rows_lit(rows)} (Ok {tree_lit(tree_of(ih._levels))})',
                           tags={'route': nm, 'op': 'construct'}, key=f'construct|{nm}|{rows_lit(rows)}')
                yield from observe_views(ctx, ih, rows, nm)
    # products explicitly (the shape the test-suite uses), incl. shared inner Index objects
    import static_frame as sf
    for lv in ([['a', 'b'], [1, 2]], [['b', 'a', 'c'], [2, 1], ['x', 'y']], [['a'], [3, 1, 2]]):
        rows = list(itertools.product(*lv))
        ih = sf.IndexHierarchy.from_product(*lv)
        yield Case('api:construct', {'route': 'from_product', 'levels': lv},
                   m=f'check_from_labels_M {rows_lit(rows)} (Ok {tree_lit(tree_of(ih._levels))})',
                   tags={'route': 'from_product', 'op': 'construct'}, key=f'construct|from_product|{rows_lit(rows)}')
        yield from observe_views(ctx, ih, rows, 'from_product')
        kinds = ['str', 'int', 'str'][:len(lv)]
        yield from observe_lookup(ctx, rng, ih, rows, kinds, 'from_product')


def hloc_cases(ctx):
    import static_frame as sf
    rng = ctx.rng
    # -- exhaustive small space: depth-2 trees x selector pairs
    trees = list(small_trees_depth2())
    pool = [1, 2, 3]
    menu0 = selector_menu(['a', 'b'], 0, inner=False)
    budget = ctx.n(700, 45000)
    combos = []
    for shape in trees:
        rows = shape_rows(shape)
        menu1 = selector_menu(pool, len(rows), inner=True, rng=rng, masks=1)
        for s0 in menu0:
            for s1 in menu1:
                combos.append((shape, [s0, s1]))
            combos.append((shape, [s0]))
    total = len(combos)
    if total > budget:
        combos = rng.sample(combos, budget)
    cache = {}
    for shape, key in combos:
        sid = id(shape)
        if sid not in cache:
            rows = shape_rows(shape)
            ih = sf.IndexHierarchy.from_labels(rows)
            cache[sid] = (rows, ih, tree_of(ih._levels))
        rows, ih, tree = cache[sid]
        yield hloc_case(ctx, ih, tree, rows, key, 'small-depth2', stratum='api:hloc:small')
    ctx.count(f'hloc-small-space:{total}')
    # -- exhaustive small space for label slices WITH A STEP at the innermost depth
    big = [[('a', [1, 2, 3]), ('b', [1, 2, 3, 4]), ('c', [2, 3])], [('a', [3, 1, 2]), ('b', [2, 4, 1, 3]), ('c', [4, 1])]]
    scombos = []
    for shape in big:
        for s0 in [('one', 'a'), ('one', 'b'), ('one', 'c'), ('all',), ('list', ['c', 'a'])]:
            for a in [None, 1, 2, 3, 4]:
                for b in [None, 1, 2, 3, 4]:
                    for k in (-2, -1, 1, 2):
                        scombos.append((shape, [s0, ('step', a, b, k)]))
    for shape in trees:
        for s0 in [('one', 'a'), ('one', 'b'), ('all',)]:
            for a in [None, 1, 2, 3]:
                for b in [None, 1, 2, 3]:
                    for k in (-2, -1, 1, 2):
                        scombos.append((shape, [s0, ('step', a, b, k)]))
    stotal = len(scombos)
    sbudget = ctx.n(500, 20000)
    if stotal > sbudget:
        scombos = rng.sample(scombos, sbudget)
    for shape, key in scombos:
        sid = id(shape)
        if sid not in cache:
            rows = shape_rows(shape)
            ih = sf.IndexHierarchy.from_labels(rows)
            cache[sid] = (rows, ih, tree_of(ih._levels))
        rows, ih, tree = cache[sid]
        yield hloc_case(ctx, ih, tree, rows, key, 'small-step', stratum='api:hloc:small-step')
    ctx.count(f'hloc-small-step-space:{stotal}')
    # -- random bigger trees, all depths
    for _ in range(ctx.n(40, 400)):
        depth = rng.choice([2, 3, 3, 4])
        kinds = gen_kinds(rng, depth)
        shape = gen_shape(rng, depth, kinds, fan_max=rng.choice([2, 3, 4, 6]) if depth < 4 else 2)
        rows = shape_rows(shape)
        route = rng.choice(['from_labels', 'go_from_labels', 'index_constructors', 'go_appends', 'from_tree'])
        ih = build_routes(rows, shape, kinds)[route]()
        if rng.random() < 0.5:
            _ = ih.values      # materialise the cached arrays first
        tree = tree_of(ih._levels)
        for _ in range(ctx.n(6, 12)):
            key = random_key(rng, rows, kinds)
            yield hloc_case(ctx, ih, tree, rows, key, route)
            if any(s[0] in ('list', 'mask') for s in key) and rng.random() < 0.5:
                yield hloc_case(ctx, ih, tree, rows, key, route, stratum='api:hloc:containers',
                                wrap=rng.choice(['index', 'series', 'array', 'iloc']))
            if rng.random() < 0.25:
                yield from extract_cases(ctx, ih, rows, key, route)
        # Boolean array as the whole key
        m = [rng.random() < 0.5 for _ in rows]
        got = [int(x) for x in ih.loc_to_iloc(np.array(m, dtype=bool))]
        yield Case('api:hloc:whole_mask', {'route': route, 'rows': [[jl(x) for x in r] for r in rows], 'mask': m, 'observed': got},
                   s=f'check_mask_S {bl(m)} {zl(got)}', tags={'route': route, 'op': 'mask'}, nontrivial=any(m),
                   key=f'mask|{rows_lit(rows)}|{m}')


def d4_class(rows, key):
    '''Input class of finding C05-append-last-edge (D4): at the first depth where `key` leaves the last row,
    its label already exists among the siblings there (so the correct outcome is a rejection).'''
    last = rows[-1]
    if len(key) != len(last):
        return False
    for d in range(len(key)):
        if row_lit([key[d]]) != row_lit([last[d]]):
            sib = {row_lit([r[d]]) for r in rows if [row_lit([x]) for x in r[:d]] == [row_lit([x]) for x in last[:d]]}
            return row_lit([key[d]]) in sib
    return False


def gen_append_key(rng, rows, kinds):
    depth = len(kinds)
    last = rows[-1]
    r = rng.random()
    if r < 0.35:      # new innermost label under the last path
        used = {jl(x[-1]) for x in rows if x[:-1] == last[:-1]}
        free = [l for l in POOLS[kinds[-1]] if jl(l) not in used]
        if free:
            return tuple(last[:-1]) + (rng.choice(free),), 'leaf'
    if r < 0.7:       # new branch at depth d
        d = rng.randrange(depth)
        used = {jl(x[d]) for x in rows if x[:d] == last[:d]}
        free = [l for l in POOLS[kinds[d]] if jl(l) not in used]
        if free:
            return tuple(last[:d]) + (rng.choice(free),) + tuple(rng.choice(POOLS[kinds[e]][:4]) for e in range(d + 1, depth)), 'branch'
    if r < 0.8:
        return tuple(rng.choice(rows)), 'dup'
    if r < 0.93:      # D4 class: an earlier sibling label at depth d
        for _ in range(8):
            d = rng.randrange(depth)
            sib = [x[d] for x in rows if x[:d] == last[:d] and jl(x[d]) != jl(last[d])]
            if sib:
                return tuple(last[:d]) + (rng.choice(sib),) + tuple(rng.choice(POOLS[kinds[e]][:4]) for e in range(d + 1, depth)), 'd4'
    if rng.random() < 0.5:
        return tuple(last[:-1]), 'badlen'
    return tuple(last) + (last[-1],), 'badlen'


def snapshot(ih):
    rows = [tuple(canon(x) for x in r) for r in ih]
    return rows


DERIVE_KINDS = ['IH(g)', 'IHGO(g)', 'rename', 'series.index', 'frame.index', 'framego.columns.to_frame', 'copy']


def derive(g, kind, n):
    '''A new index derived from the (possibly just grown) IndexHierarchyGO through the public interface.'''
    import static_frame as sf
    if kind == 'IH(g)':
        return sf.IndexHierarchy(g)
    if kind == 'IHGO(g)':
        return sf.IndexHierarchyGO(g)
    if kind == 'rename':
        return g.rename('r')
    if kind == 'series.index':
        return sf.Series(range(n), index=g).index
    if kind == 'frame.index':
        return sf.Frame.from_records([[i] for i in range(n)], index=g, columns=('v',)).index
    if kind == 'framego.columns.to_frame':
        return sf.FrameGO.from_records([list(range(n))], columns=g).to_frame().columns
    if kind == 'copy':
        return g.copy()
    raise ValueError(kind)


def first_reads(depth):
    '''Reads of the grown object that decide THEMSELVES whether to refresh the cached table (each has its own
    `if self._recache:` in index_hierarchy.py) plus the cheap shape-like views; each is rotated into the FIRST
    position after a growth step, as its own probe, so that no earlier read has refreshed the cache for it.'''
    out = [('first', 'values_at_depth', d) for d in range(depth)]
    out += [('first', nm, None) for nm in ('values', 'dtypes', 'nbytes', 'shape', 'size', 'depth', 'len', 'iloc_last', 'iloc_all',
                                          'reversed', 'to_frame', 'deepcopy', 'relabel_identity', 'isin_last', 'eq_self', 'values_at_depth_list',
                                          'display', 'drop_iloc_none', 'roll0', 'positions')]
    return out


def first_read(g, name, arg, want):
    '''Perform one read; return a list of problems against the tuples `want` the grown object must denote.'''
    import copy as _copy
    n, depth = len(want), len(want[0])
    rows_of = lambda it: [tuple(canon(x) for x in r) for r in it]
    same = lambda got: [row_lit(r) for r in got] == [row_lit(r) for r in want]
    if name == 'values_at_depth':
        col = [canon(x) for x in lit.array_vals(g.values_at_depth(arg))]
        return [] if [lab(x) for x in col] == [lab(r[arg]) for r in want] else [f'values_at_depth({arg}) has {len(col)} labels, the index has {n} tuples' if len(col) != n else f'values_at_depth({arg}) differs from the tuples']
    if name == 'values_at_depth_list':
        a = g.values_at_depth(list(range(depth)))
        return [] if same(rows_of(a.tolist())) else [f'values_at_depth({list(range(depth))}) has {len(a)} rows, the index has {n} tuples']
    if name == 'values':
        return [] if same(rows_of(g.values.tolist())) else ['values differs from the tuples']
    if name == 'dtypes':
        v = g.dtypes
        return [] if len(v) == depth else [f'dtypes has {len(v)} entries']
    if name == 'nbytes':
        a = g.nbytes
        _ = g.values
        return [] if a == g.nbytes else [f'nbytes {a} before, {g.nbytes} after the table is refreshed']
    if name == 'shape':
        return [] if tuple(g.shape) == (n, depth) else [f'shape {tuple(g.shape)} != {(n, depth)}']
    if name == 'size':
        return [] if g.size == n * depth else [f'size {g.size} != {n * depth}']
    if name == 'depth':
        return [] if g.depth == depth else [f'depth {g.depth}']
    if name == 'len':
        return [] if len(g) == n else [f'len {len(g)} != {n}']
    if name == 'positions':
        return [] if list(g.positions) == list(range(n)) else [f'positions has {len(g.positions)} entries']
    if name == 'iloc_last':
        got = tuple(canon(x) for x in g.iloc[n - 1])
        return [] if row_lit(got) == row_lit(want[-1]) else [f'iloc[{n - 1}] = {got}']
    if name == 'iloc_all':
        return [] if same(rows_of(g.iloc[list(range(n))])) else ['iloc[all positions] differs from the tuples']
    if name == 'reversed':
        got = rows_of(reversed(g))
        return [] if [row_lit(r) for r in got] == [row_lit(r) for r in reversed(want)] else [f'reversed() yields {len(got)} tuples']
    if name == 'to_frame':
        f = g.to_frame()
        return [] if same(rows_of(f.values.tolist())) else [f'to_frame() has shape {f.shape}']
    if name == 'deepcopy':
        c = _copy.deepcopy(g)
        return ([] if same(rows_of(c)) else ['deepcopy iterates differently']) + ([] if same(rows_of(c.values.tolist())) else [f'deepcopy().values has {len(c.values)} rows'])
    if name == 'relabel_identity':
        return [] if same(rows_of(g.relabel(lambda x: tuple(x)))) else ['relabel(identity) differs from the tuples']
    if name == 'isin_last':
        a = g.isin([want[-1]])
        return [] if [bool(x) for x in a] == [i == n - 1 for i in range(n)] else [f'isin([last]) has {len(a)} entries / wrong mask']
    if name == 'eq_self':
        a = (g == g.values)
        return [] if a.shape == (n, depth) and bool(a.all()) else [f'(g == g.values) has shape {a.shape}']
    if name == 'display':
        txt = str(g.display())
        return [] if all(str(jl(want[-1][d])) in txt for d in range(depth) if not isinstance(want[-1][d], np.datetime64)) and txt.count('\n') >= n else [f'display() shows {txt.count(chr(10))} lines for {n} tuples']
    if name == 'drop_iloc_none':
        if n < 2:
            return []
        got = rows_of(g._drop_iloc(0)) if hasattr(g, '_drop_iloc') else None
        return [] if got is None or [row_lit(r) for r in got] == [row_lit(r) for r in want[1:]] else ['dropping position 0 does not give the other tuples']
    if name == 'roll0':
        return [] if same(rows_of(g.roll(0))) else ['roll(0) differs from the tuples']
    raise ValueError(name)


def probe_battery(want, depth, order=0, first=None, lead=None):
    '''Everything that is observed IMMEDIATELY after a growth step, before any other read of the grown object:
    HLoc selections of every selector kind (incl. `:` / omitted / open label slice at the innermost depth),
    Series/Frame .loc[HLoc] on containers indexed by the grown object, and new indices derived from it.'''
    r = want[-1]
    n = len(want)
    pre = [('one', x) for x in r[:-1]]
    hl = [pre + [('all',)], pre, [('one', r[0])], pre + [('slice', r[-1], None)], pre + [('slice', None, r[-1])],
          [('all',)] * depth, pre + [('one', r[-1])], pre + [('list', [r[-1]])], [('all',)] * (depth - 1) + [('one', r[-1])]]
    seen, hl2 = set(), []
    for k in hl:
        if key_lit(k) not in seen:
            seen.add(key_lit(k))
            hl2.append(k)
    masks = [[('all',)] * (depth - 1) + [('mask', [True] * n)], pre + [('mask', [i == n - 1 for i in range(n)])]]
    leaf = [x[-1] for x in want if x[:-1] == r[:-1]]
    for k in ([pre + [('step', leaf[-1], leaf[0], -1)], pre + [('step', leaf[0], leaf[-1], 2)]] if len(leaf) > 1 else []):
        hl2.append(k)
    ph = [('iter_label',)] + [('hloc', k) for k in hl2]
    pe = [('extract', pre + [('all',)]), ('extract', [('all',)] * (depth - 1) + [('one', r[-1])])]
    pd = [('derive', k) for k in DERIVE_KINDS]
    pm = [('hloc', k) for k in masks]
    head = [first] if first is not None else []
    if lead is not None:
        # one HLoc selection (non-array key) is the VERY FIRST reader after the growth step: nothing -- not even
        # iter_label, which iterates the leaf indices -- has refreshed a leaf cache before it
        k = ph[1 + lead % (len(ph) - 1)]
        ph = [p_ for p_ in ph if p_ is not k]
        head = [k]
    if order == 0:
        return head + ph + pe + pd[:-1] + pm + pd[-1:]
    if order == 1:
        return head + ph[:1] + pd[:-1] + ph[1:] + pe + pm + pd[-1:]
    return head + ph[:1] + pe + pd[:-1] + ph[1:] + pm + pd[-1:]


def run_probes(ctx, g, probes, want):
    '''Execute the probes now (no other access to `g` in between); returns raw observations.'''
    n = len(want)
    raw = []
    for i, p in enumerate(probes):
        if p[0] == 'first':
            try:
                res = first_read(g, p[1], p[2], want)
            except Exception as e:  # noqa
                res = [f'raised {type(e).__name__}: {e}'[:200]]
            raw.append(('first', i, (p[1], p[2]), res))
        elif p[0] == 'iter_label':
            raw.append(('iter_label', i, None, iter_label_observe(g, len(want[0]))))
        elif p[0] == 'hloc':
            raw.append(('hloc', i, p[1], hloc_observe(g, p[1], n)))
        elif p[0] == 'derive':
            try:
                obj = derive(g, p[1], n)
            except Exception as e:  # noqa
                obj = e
            raw.append(('derive', i, p[1], obj))
        elif p[0] == 'extract':
            try:
                cs = list(extract_cases(ctx, g, want, p[1], 'go-grown', only=('series.loc', 'frame.loc'), extra={'probe': i}))
            except Exception as e:  # noqa
                cs = e
            raw.append(('extract', i, p[1], cs))
    return raw


def derived_case(ctx, kind, obj, want, stratum, extra, canonical_tree=False):
    '''All views of an index derived from a grown IndexHierarchyGO against the tuples the grown object denotes.'''
    depth = len(want[0])
    n = len(want)
    rl = rows_lit(want)
    desc = dict(extra, derive=kind, rows=[[jl(x) for x in r] for r in want],
                observe='list, len, shape, values, values_at_depth, iter_label, iloc[-1], in, loc_to_iloc of the derived index')
    tags = {'op': 'derive', 'derive': kind}
    extra = dict(extra)
    tags.update(extra.pop('_tags', None) or {})
    ctx.count(f'go:derive:{kind}')
    key = f'derive|{kind}|{rl}|{json_key(extra)}'
    if isinstance(obj, Exception):
        return Case(stratum + ':derive', desc, py_fail=f'deriving {kind} from the grown index raised {type(obj).__name__}: {obj}'[:300], tags=tags, key=key)
    try:
        import static_frame as sf
        problems = []
        obs_rows = [tuple(canon(x) for x in r) for r in obj]
        if len(obj) != n:
            problems.append(f'len {len(obj)} != {n}')
        if tuple(obj.shape) != (n, depth):
            problems.append(f'shape {tuple(obj.shape)} != {(n, depth)}')
        vals = [tuple(canon(x) for x in r) for r in obj.values.tolist()]
        if [row_lit(r) for r in vals] != [row_lit(r) for r in want]:
            problems.append(f'values has {len(vals)} rows, differs from the {n} tuples')
        cols = []
        for d in range(depth):
            col = [canon(x) for x in lit.array_vals(obj.values_at_depth(d))]
            cols.append(col)
            it = [canon(x) for x in obj.iter_label(d)]
            if [lab(x) for x in it] != [lab(r[d]) for r in want]:
                problems.append(f'iter_label({d}) has {len(it)} labels, differs from the tuples')
        last = tuple(canon(x) for x in obj.iloc[n - 1]) if len(obj) >= n else None
        if last is None or row_lit(last) != row_lit(want[-1]):
            problems.append(f'iloc[{n - 1}] = {last}')
        if want[-1] not in obj:
            problems.append('the last tuple is not a member')
        pos = obj.loc_to_iloc(tuple(want[-1]))
        if int(pos) != n - 1:
            problems.append(f'loc_to_iloc(last tuple) = {pos}')
        sel = canon_iloc(obj.loc_to_iloc(sf.HLoc[slice(None)]), n)[1]
        if sel != list(range(n)):
            problems.append(f'HLoc[:] selects {len(sel)} positions')
        tl = tree_lit(tree_of(obj._levels))
        cl = [lit.lst([lab(x) for x in c]) for c in cols]
        m = ' && '.join([f'check_iter_M {tl} {rows_lit(obs_rows)}'] + [f'check_col_M {tl} {d} {cl[d]}' for d in range(depth)]
                        + ([f'check_from_labels_M {rl} (Ok {tl})', f'wf_obs {tl}'] if canonical_tree else []))
        s_ = ' && '.join([f'rows_eqb {rows_lit(obs_rows)} {rl}'] + [f'check_col_S {rl} {d} {cl[d]}' for d in range(depth)])
        tags['outcome'] = 'views-disagree' if problems else 'ok'
        return Case(stratum + ':derive', dict(desc, observed_len=len(obj), observed_rows=len(vals)), m=m, s=s_,
                    py_fail='; '.join(problems) or None, tags=tags, key=key)
    except Exception as e:  # noqa
        tags['outcome'] = f'view-raises:{type(e).__name__}'
        return Case(stratum + ':derive', desc, py_fail=f'a view of {kind} derived from the grown index raised {type(e).__name__}: {e}'[:300], tags=tags, key=key)


def probe_cases(ctx, g, raw, tree_after, want, stratum, steps_json):
    for kind, i, arg, res in raw:
        extra = {'history': steps_json, 'probe': i, 'probed': 'immediately after the last step'}
        if kind == 'first':
            nm = arg[0] + (f'({arg[1]})' if arg[1] is not None else '')
            ctx.count(f'go:first-read:{arg[0]}')
            yield Case(stratum + ':first_read_after_growth',
                       dict(extra, first_read=nm, rows=[[jl(x) for x in r] for r in want],
                            observe=f'{nm} as read number {i + 1} after the last step (nothing else has read the grown object before it)' if i else f'{nm} as the FIRST read after the last step'),
                       py_fail=('; '.join(res))[:400] or None, tags={'op': 'first_read', 'read': arg[0], 'position': i},
                       key=f'first|{nm}|{i}|{rows_lit(want)}|{json_key(steps_json)}')
        elif kind == 'iter_label':
            yield from iter_label_cases(ctx, g, tree_after, want, 'go-grown', stratum + ':iter_label_after_growth',
                                        {'history': steps_json, 'rows': [[jl(x) for x in r] for r in want]}, {'op': 'iter_label'}, obs=res)
        elif kind == 'hloc':
            ctx.count('go:probe:hloc')
            yield hloc_case(ctx, g, tree_after, want, arg, 'go-grown', stratum=stratum + ':hloc_after_growth', obs=res, extra=extra)
        elif kind == 'derive':
            yield derived_case(ctx, arg, res, want, stratum, extra)
        elif kind == 'extract':
            ctx.count('go:probe:extract')
            if isinstance(res, Exception):
                yield Case(stratum + ':extract_after_growth', dict(extra, key=[sel_json(s) for s in arg]),
                           py_fail=f'Series/Frame selection on a container indexed by the grown index raised {type(res).__name__}: {res}'[:300],
                           tags={'op': 'extract'}, key=f'extract-raise|{json_key(extra)}|{key_lit(arg)}')
            else:
                for c in res:
                    c.desc['history'] = steps_json
                    c.key = c.key + '|' + json_key(steps_json)
                    yield c


def go_history(ctx, rng, rows0, kinds, script, stratum='api:go'):
    '''Run a history on an IndexHierarchyGO; one case per step (+ one for the whole history).'''
    import static_frame as sf
    depth = len(kinds)
    g = sf.IndexHierarchyGO.from_labels(rows0)
    ref = [tuple(r) for r in rows0]
    t0 = tree_of(g._levels)
    ops_lit = []
    steps_json = []
    step_i = 0
    ok_history = True
    for op in script:
        step_i += 1
        before = tree_of(g._levels)
        if op[0] == 'append':
            key, cls = op[1], op[2]
            ctx.count(f'go:append:{cls}')
            try:
                g.append(key)
                err = None
            except Exception as e:  # noqa
                err = e
            want0 = ref + [tuple(key)] if err is None else ref
            raw = run_probes(ctx, g, op[3] if len(op) > 3 else [], want0)      # before ANY other read of g
            after = tree_of(g._levels)
            obs = f'(Err {lit.s(lit.err_class(err))})' if err is not None else f'(Ok {tree_lit(after)})'
            unchanged_problem = None
            if err is not None and tree_lit(after) != tree_lit(before):
                unchanged_problem = f'append({[jl(x) for x in key]}) raised {type(err).__name__} but changed the tree'
            want = ref + [tuple(key)] if err is None else ref
            tags = {'op': 'append', 'keyclass': cls}
            if d4_class(ref, key):
                tags['d4_class'] = True      # regression class of the repaired defect 5320f59: must be rejected
            problems = []
            try:
                got = snapshot(g)
                if [row_lit(r) for r in got] != [row_lit(r) for r in want]:
                    problems.append(f'after append({[jl(x) for x in key]}) -> {"ok" if err is None else type(err).__name__}: list(ih) = {[[jl(x) for x in r] for r in got][-3:]} (tail), expected tail {[[jl(x) for x in r] for r in want][-3:]}')
                problems += views_disagree(g, got)
            except Exception as e:  # noqa
                problems.append(f'views raise {type(e).__name__} after append({[jl(x) for x in key]}) -> {"ok" if err is None else type(err).__name__}')
            if unchanged_problem:
                problems.append(unchanged_problem)
            if d4_class(ref, key) and err is None:
                problems.append('a key under an earlier label was accepted')
            yield Case(stratum + ':append',
                       {'start_rows': [[jl(x) for x in r] for r in rows0], 'history': steps_json + [['append', [jl(x) for x in key]]],
                        'observe': 'outcome, tree, list(ih), values, values_at_depth, len after the last step', 'observed': obs},
                       m=f'check_append_M {tree_lit(before)} {row_lit(key)} {obs}',
                       py_fail='; '.join(problems) or None, tags=tags, nontrivial=err is None,
                       key=f'append|{tree_lit(before)}|{row_lit(key)}')
            steps_json.append(['append', [jl(x) for x in key]])
            ops_lit.append(f'OAppend {row_lit(key)}')
            yield from probe_cases(ctx, g, raw, after, want0, stratum, list(steps_json))
            if problems:
                ok_history = False
                break
            ref = want
        elif op[0] == 'extend':
            other_rows, cls = op[1], op[2]
            ctx.count(f'go:extend:{cls}')
            other = sf.IndexHierarchy.from_labels(other_rows)
            ot = tree_of(other._levels)
            try:
                g.extend(other)
                err = None
            except Exception as e:  # noqa
                err = e
            want0 = ref + [tuple(r) for r in other_rows] if err is None else ref
            raw = run_probes(ctx, g, (op[3] if len(op) > 3 else []) if cls == 'valid' else [], want0)
            tags = {'op': 'extend', 'keyclass': cls}
            want = ref + [tuple(r) for r in other_rows] if err is None else ref
            problems = []
            try:
                got = snapshot(g)
                if [row_lit(r) for r in got] != [row_lit(r) for r in want]:
                    problems.append(f'after extend -> {"ok" if err is None else type(err).__name__}: list(ih) has {len(got)} rows, expected {len(want)}')
                problems += views_disagree(g, got)
            except Exception as e:  # noqa
                problems.append(f'views raise {type(e).__name__} after extend -> {"ok" if err is None else type(err).__name__}')
                # known finding C05-extend-partial excuses exactly the recorded outcome: the extend is rejected with KeyError
                # (duplicate outer label after a new one) and the views then raise IndexError -- nothing else
                if cls == 'partial' and isinstance(err, KeyError) and isinstance(e, IndexError) and len(problems) == 1:
                    tags['finding'] = 'C05-extend-partial'
            after = tree_of(g._levels) if not problems else None
            obs = f'(Err {lit.s(lit.err_class(err))})' if err is not None else f'(Ok {tree_lit(tree_of(g._levels))})'
            yield Case(stratum + ':extend',
                       {'start_rows': [[jl(x) for x in r] for r in rows0], 'history': steps_json + [['extend', [[jl(x) for x in r] for r in other_rows]]],
                        'observe': 'outcome, tree, list(ih), values, len after the last step', 'observed': obs},
                       m=f'check_extend_M {tree_lit(before)} {tree_lit(ot)} {obs}' if cls != 'partial' else None,
                       py_fail='; '.join(problems) or None, tags=tags, nontrivial=err is None,
                       key=f'extend|{tree_lit(before)}|{tree_lit(ot)}')
            steps_json.append(['extend', [[jl(x) for x in r] for r in other_rows]])
            ops_lit.append(f'OExtend {tree_lit(ot)}')
            if not problems and cls == 'valid':
                yield from probe_cases(ctx, g, raw, tree_of(g._levels), want0, stratum, list(steps_json))
            if problems or cls == 'partial':
                ok_history = False
                break
            ref = want
        elif op[0] == 'read':
            what = op[1]
            ctx.count(f'go:read:{what}')
            if what == 'values':
                _ = g.values
            elif what == 'column':
                _ = g.values_at_depth(op[2] % depth)
            elif what == 'len':
                _ = len(g)
            elif what == 'hloc':
                tree = tree_of(g._levels)
                yield hloc_case(ctx, g, tree, ref, op[2], 'go-history', stratum=stratum + ':hloc')
            steps_json.append(['read', what])
            if what in ('values', 'column'):
                ops_lit.append('ORead')
    if ok_history and ops_lit:
        final = tree_of(g._levels)
        try:
            cols = [[canon(x) for x in lit.array_vals(g.values_at_depth(d))] for d in range(depth)]
        except Exception as e:  # noqa
            yield Case(stratum + ':history', {'start_rows': [[jl(x) for x in r] for r in rows0], 'history': steps_json},
                       py_fail=f'values_at_depth raised {type(e).__name__} after the history', tags={'op': 'history'},
                       key=f'hist|{tree_lit(t0)}|{ops_lit}')
            return
        cl = lit.lst([lit.lst([lab(x) for x in c]) for c in cols])
        yield Case(stratum + ':history',
                   {'start_rows': [[jl(x) for x in r] for r in rows0], 'history': steps_json, 'observe': 'final tree and per-depth arrays'},
                   m=f'check_history_M {tree_lit(t0)} {lit.lst(ops_lit)} {tree_lit(final)} {cl}',
                   s=f'list_eqb (list_eqb val_eqb) (map (S_column {rows_lit(ref)}) (seq 0 {depth})) {cl}',
                   tags={'op': 'history'}, nontrivial=len(ops_lit) > 1, key=f'hist|{tree_lit(t0)}|{ops_lit}')


def views_disagree(ih, rows):
    '''Python-side: the table views of `ih` against its own tuple iteration.'''
    out = []
    n = len(rows)
    if len(ih) != n:
        out.append(f'len {len(ih)} vs {n} tuples')
    if n:
        depth = len(rows[0])
        vals = [tuple(canon(x) for x in r) for r in ih.values.tolist()]
        if [row_lit(r) for r in vals] != [row_lit(r) for r in rows]:
            out.append('values differ from list(ih)')
        for d in range(depth):
            col = [canon(x) for x in lit.array_vals(ih.values_at_depth(d))]
            if [lab(x) for x in col] != [lab(r[d]) for r in rows]:
                out.append(f'values_at_depth({d}) differs from list(ih)')
        if tuple(ih.shape) != (n, depth):
            out.append(f'shape {ih.shape}')
    return out


def random_probes(rng, want, kinds):
    '''A few probes for a random history: always one innermost-`:`/open-slice HLoc, a random key, some derivations.'''
    depth = len(kinds)
    battery = probe_battery(want, depth, order=rng.randrange(3))
    hl = [p for p in battery if p[0] == 'hloc']
    dv = [p for p in battery if p[0] == 'derive' and p[1] != 'copy']
    ex = [p for p in battery if p[0] == 'extract']
    chosen = [rng.choice(hl[:5]), ('hloc', random_key(rng, want, kinds))] + rng.sample(dv, 2)
    if rng.random() < 0.5:
        chosen.append(rng.choice(hl[5:]))
    if rng.random() < 0.4:
        chosen.append(rng.choice(ex))
    rng.shuffle(chosen)
    hs = [p_ for p_ in chosen if p_[0] == 'hloc' and not any(s_[0] == 'mask' for s_ in p_[1])]
    if hs and rng.random() < 0.7:                  # usually a selection leads
        chosen.remove(hs[0])
        chosen.insert(0, hs[0])
    if rng.random() < 0.3:
        chosen.append(('derive', 'copy'))
    r = rng.random()
    if r < 0.4:
        return [rng.choice(first_reads(depth)), ('iter_label',)] + chosen
    if r < 0.8:
        return chosen + [('iter_label',)]           # an HLoc selection / derivation is the first reader
    return [('iter_label',)] + chosen


def lead_kw(hid, j, frs):
    '''Who reads the grown object FIRST: a self-refreshing table read, an HLoc selection, or iter_label (rotated).'''
    v = (hid + 2 * j) % 3
    if v == 0:
        return {'first': frs[(hid * 5 + j) % len(frs)]}
    if v == 1:
        return {'lead': hid * 3 + j}
    return {}


def short_history_cases(ctx):
    '''EXHAUSTIVE short histories over the alphabet {materialise, append a leaf label, append a new branch, extend}
    from two fixed start indices; after every growth step the full probe battery is run before anything else reads
    the grown object (derive-and-observe-all-views, HLoc of every selector kind, Series/Frame .loc[HLoc]).'''
    import itertools as it
    starts = [([('a', 1), ('a', 2), ('b', 1)], ['str', 'int']),
              ([('a', 1, 'x'), ('a', 1, 'y'), ('b', 2, 'x')], ['str', 'int', 'str'])]
    max_len = 2 if ctx.tier == 'quick' else 3
    alphabet = ['M', 'Al', 'Ab', 'E']
    hid = 0
    for rows0, kinds in starts:
        depth = len(kinds)
        words = [w for L in range(1, max_len + 1) for w in it.product(alphabet, repeat=L) if any(x != 'M' for x in w)]
        if ctx.tier == 'quick':      # + a sample of the length-3 words (all of them in the thorough tier)
            w3 = [w for w in it.product(alphabet, repeat=3) if any(x != 'M' for x in w)]
            words += ctx.rng.sample(w3, ctx.n(8, 8))
        frs = first_reads(depth)
        for w in words:
            hid += 1
            ref = list(rows0)
            script = []
            for j, a in enumerate(w):
                if a == 'M':
                    script.append(('read', 'values', 0))
                    continue
                last = ref[-1]
                if a == 'Al':
                    used = {jl(x[-1]) for x in ref if x[:-1] == last[:-1]}
                    new = [l for l in POOLS[kinds[-1]] if jl(l) not in used][0]
                    key = tuple(last[:-1]) + (new,)
                    ref = ref + [key]
                    script.append(('append', key, 'leaf', probe_battery(ref, depth, order=(hid + j) % 3, **lead_kw(hid, j, frs))))
                elif a == 'Ab':
                    used = {jl(x[0]) for x in ref}
                    new = [l for l in POOLS[kinds[0]] + ['f', 'g', 'h'] if jl(l) not in used][0]
                    key = (new,) + tuple(last[1:])
                    ref = ref + [key]
                    script.append(('append', key, 'branch', probe_battery(ref, depth, order=(hid + j) % 3, **lead_kw(hid, j, frs))))
                else:
                    used = {jl(x[0]) for x in ref}
                    new = [l for l in ['p', 'q', 'r', 's'] if l not in used][0]
                    orows = [(new,) + tuple(rows0[0][1:]), (new,) + tuple(rows0[1][1:])]
                    ref = ref + orows
                    script.append(('extend', orows, 'valid', probe_battery(ref, depth, order=(hid + j) % 3, **lead_kw(hid, j, frs))))
            ctx.count(f'go:short:{len(w)}')
            yield from go_history(ctx, ctx.rng, rows0, kinds, script, stratum='api:go:short')


def first_read_cases(ctx):
    '''EXHAUSTIVE: for both start indices, each growth kind (append leaf / append branch / extend), with the table
    materialised before (and, as control, not materialised), EVERY first read of first_reads() is performed as the very
    first read after the growth step.'''
    starts = [([('a', 1), ('a', 2), ('b', 1)], ['str', 'int']),
              ([('a', 1, 'x'), ('a', 1, 'y'), ('b', 2, 'x')], ['str', 'int', 'str'])]
    for rows0, kinds in starts:
        depth = len(kinds)
        last = rows0[-1]
        grow = {
            'Al': ('append', tuple(last[:-1]) + ({'int': 9, 'str': 'z'}[kinds[-1]],), 'leaf'),
            'Ab': ('append', ('k',) + tuple(last[1:]), 'branch'),
            'E': ('extend', [('p',) + tuple(rows0[0][1:]), ('p',) + tuple(rows0[1][1:])], 'valid'),
        }
        for gname, gop in grow.items():
            want = list(rows0) + ([gop[1]] if gop[0] == 'append' else list(gop[1]))
            for fr in first_reads(depth):
                for materialise in ((True,) if ctx.tier == 'quick' and fr[1] not in ('values_at_depth', 'dtypes', 'nbytes') else (True, False)):
                    script = ([('read', 'values', 0)] if materialise else []) + [gop + ([fr, ('iter_label',)],)]
                    ctx.count('go:first-read-history')
                    for c in go_history(ctx, ctx.rng, rows0, kinds, script, stratum='api:go:first'):
                        if c.kind.endswith(':first_read_after_growth') or c.py_fail:
                            yield c


# ----------------------------------------------------------------------------- GO growth under a datetime-typed inner level
def spell(v, how):
    '''The same date label spelled as np.datetime64 / datetime.date / ISO string.'''
    if not isinstance(v, np.datetime64):
        return v
    if how == 'date':
        return v.astype('datetime64[D]').astype(object)
    if how == 'str':
        return str(v)
    return v


def node_classes(level, depth=0, out=None):
    '''depth -> set of Index class names (GO suffix stripped) of every node of the real tree.'''
    out = {} if out is None else out
    nm = type(level.index).__name__
    out.setdefault(depth, set()).add(nm[:-2] if nm.endswith('GO') else nm)
    if level.targets is not None:
        for t in level.targets:
            node_classes(t, depth + 1, out)
    return out


def call_class(fn):
    try:
        return ('ok', fn())
    except Exception as e:  # noqa
        return ('err', lit.err_class(e))


def date_history_cases(ctx):
    '''IndexHierarchyGO (and hierarchical FrameGO columns) whose inner depth is a datetime index class: appends /
    extends that introduce NEW outer labels, keys spelled as np.datetime64 / datetime.date / str; then per-level
    selection, membership and full-tuple lookup with the date spelled in every way (incl. coarser-unit strings, lists,
    slices) -- against the tuple-sequence specification AND against the same labels built in one go.'''
    import static_frame as sf
    rng = ctx.rng
    D = lambda x: np.datetime64(x, 'D')
    M_ = lambda x: np.datetime64(x, 'M')
    configs = [
        ('d2', [sf.Index, sf.IndexDate], 1, 'D', [('a', D('2020-01-01')), ('a', D('2020-01-03')), ('b', D('2020-01-02'))],
         [('b', D('2020-01-05')), ('c', D('2020-01-03')), ('c', D('2020-02-01')), ('d', D('2020-01-05'))],
         [('e', D('2020-01-05')), ('e', D('2020-02-02')), ('f', D('2020-01-03'))]),
        ('d3-mid', [sf.Index, sf.IndexDate, sf.Index], 1, 'D', [('a', D('2020-01-01'), 'x'), ('a', D('2020-01-03'), 'x'), ('b', D('2020-01-02'), 'y')],
         [('b', D('2020-01-05'), 'x'), ('c', D('2020-01-03'), 'x'), ('c', D('2020-02-01'), 'y'), ('d', D('2020-01-05'), 'x')],
         [('e', D('2020-01-05'), 'x'), ('f', D('2020-01-03'), 'y')]),
        ('d3-inner', [sf.Index, sf.Index, sf.IndexDate], 2, 'D', [('a', 1, D('2020-01-01')), ('a', 1, D('2020-01-03')), ('b', 2, D('2020-01-02'))],
         [('b', 2, D('2020-01-05')), ('c', 1, D('2020-01-03')), ('c', 2, D('2020-02-01')), ('d', 1, D('2020-01-05'))],
         [('e', 1, D('2020-01-05')), ('f', 2, D('2020-01-03'))]),
        ('ym', [sf.Index, sf.IndexYearMonth], 1, 'M', [('a', M_('2020-01')), ('a', M_('2020-03')), ('b', M_('2020-02'))],
         [('b', M_('2020-05')), ('c', M_('2020-03')), ('c', M_('2021-01')), ('d', M_('2020-05'))],
         [('e', M_('2020-05')), ('f', M_('2021-01'))]),
    ]
    for cname, ctors, dd, unit, rows0, appends, ext in configs:
        depth = len(ctors)
        for how in (('np', 'date', 'str') if unit == 'D' else ('np', 'str')):
            for via in ('ihgo', 'framego.columns'):
                if via == 'framego.columns' and (ctx.tier == 'quick' and how == 'np'):
                    continue
                want = list(rows0)
                g = sf.IndexHierarchyGO.from_labels(rows0, index_constructors=ctors)
                frame = sf.FrameGO.from_records([list(range(len(rows0)))], columns=g) if via == 'framego.columns' else None
                steps = []
                script = [('append', k) for k in appends] + ([('extend', ext)] if via == 'ihgo' else [('append', k) for k in ext])
                for op, arg in script:
                    if frame is not None:
                        g = frame.columns
                    grown = None
                    try:
                        if op == 'append':
                            key = tuple(spell(x, how) for x in arg)
                            if frame is not None:
                                frame[key] = [len(want)]
                            else:
                                g.append(key)
                            want = want + [arg]
                        else:
                            other = sf.IndexHierarchy.from_labels([tuple(spell(x, how) for x in r) for r in arg], index_constructors=ctors)
                            g.extend(other)
                            want = want + list(arg)
                    except Exception as e:  # noqa
                        grown = e
                    steps.append([op, [jl(x) for x in arg] if op == 'append' else [[jl(x) for x in r] for r in arg], f'dates spelled as {how}'])
                    base = {'config': cname, 'via': via, 'index_constructors': [c.__name__ for c in ctors], 'history': list(steps),
                            'start_rows': [[jl(x) for x in r] for r in rows0]}
                    ctx.count(f'go:date:{cname}:{how}:{via}')
                    if grown is not None:
                        yield Case('api:go:date:growth', base, py_fail=f'{op} with dates spelled as {how} raised {type(grown).__name__}: {grown}'[:300],
                                   tags={'op': 'date-growth', 'spelling': how, 'via': via}, key=f'dg|{cname}|{how}|{via}|{json_key(steps)}')
                        break
                    if frame is not None:
                        g = frame.columns
                    yield from date_probes(ctx, g, want, ctors, dd, unit, base, rng)


def date_probes(ctx, g, want, ctors, dd, unit, base, rng):
    import static_frame as sf
    depth = len(ctors)
    n = len(want)
    one = sf.IndexHierarchy.from_labels(want, index_constructors=ctors)          # the same labels built in one go
    last = want[-1]
    dnew = last[dd]
    group = [r[dd] for r in want if r[:dd] == last[:dd]]
    dold = want[0][dd]
    tags = {'op': 'date-probe', 'config': base['config'], 'via': base['via']}
    hkey = json_key(base['history'])
    # -- structure: every node of the date depth keeps the datetime index class; dtypes / index_types as built in one go
    problems = []
    nc, oc = node_classes(g._levels), node_classes(one._levels)
    if nc != oc:
        problems.append(f'index classes per depth {dict((k, sorted(v)) for k, v in nc.items())}, built in one go {dict((k, sorted(v)) for k, v in oc.items())}')
    if [str(x) for x in g.dtypes.values] != [str(x) for x in one.dtypes.values]:
        problems.append(f'dtypes {[str(x) for x in g.dtypes.values]}, built in one go {[str(x) for x in one.dtypes.values]}')
    got = [tuple(canon(x) for x in r) for r in g]
    if [row_lit(r) for r in got] != [row_lit(r) for r in want]:
        problems.append('list(index) differs from the tuples')
    yield Case('api:go:date:structure', dict(base, observe='index class of every tree node per depth, dtypes, list(index) vs the same labels built in one go'),
               py_fail='; '.join(problems)[:400] or None, tags=tags, key=f'dstruct|{hkey}')
    tree = tree_of(g._levels)
    tl, rl = tree_lit(tree), rows_lit(want)
    all_ = [('all',)] * depth

    def key_with(sel_at_dd, outer=None):
        k = list(all_)
        k[dd] = sel_at_dd
        if outer is not None:
            k[0] = ('one', outer)
        return k

    spellings = ('np', 'date', 'str') if unit == 'D' else ('np', 'str')
    probes = []
    for sp in spellings:
        probes.append((key_with(('one', dnew)), sp, f'label {jl(dnew)} as {sp}'))
        probes.append((key_with(('one', dnew), outer=last[0]), sp, f'outer {jl(last[0])}, label as {sp}'))
        probes.append((key_with(('list', [dnew, dold])), sp, f'list as {sp}'))
        probes.append((key_with(('slice', group[0], group[-1]), outer=last[0]) if dd == 1 else key_with(('one', dnew), outer=last[0]), sp, f'slice as {sp}'))
    for key, sp, what in probes:
        def pykey(k=key, sp=sp):
            parts = []
            for s_ in k:
                if s_[0] == 'one':
                    parts.append(spell(s_[1], sp))
                elif s_[0] == 'list':
                    parts.append([spell(x, sp) for x in s_[1]])
                elif s_[0] == 'slice':
                    parts.append(slice(spell(s_[1], sp), spell(s_[2], sp)))
                else:
                    parts.append(slice(None))
            return sf.HLoc(tuple(parts))
        obs = res_lit(lambda: canon_iloc(g.loc_to_iloc(pykey()), n), lambda v: hres_lit(*v))
        ref = res_lit(lambda: canon_iloc(one.loc_to_iloc(pykey()), n), lambda v: hres_lit(*v))
        pf = None if obs[0] == ref[0] else f'grown index answers {obs[0]}, the same labels built in one go answer {ref[0]}'
        ctx.count(f'go:date:probe:{sp}')
        yield hloc_case(ctx, g, tree, want, key, 'go-date', stratum='api:go:date:hloc', obs=obs,
                        extra=dict(base, spelled=what, _py_fail=pf))
    # -- coarser-unit string at the date depth: all labels of that period (python reference + one-go)
    coarse = str(dnew)[:7] if unit == 'D' else str(dnew)[:4]
    for outer in (None, last[0]):
        parts = [slice(None)] * depth
        parts[dd] = coarse
        if outer is not None:
            parts[0] = outer
        k = sf.HLoc(tuple(parts))
        a = call_class(lambda: sorted(canon_iloc(g.loc_to_iloc(k), n)[1]))
        b = call_class(lambda: sorted(canon_iloc(one.loc_to_iloc(k), n)[1]))
        expect = [i for i, r in enumerate(want) if str(r[dd]).startswith(coarse) and (outer is None or jl(r[0]) == jl(outer))]
        pr = []
        if a != b:
            pr.append(f'grown index answers {a}, built in one go answers {b}')
        if a != ('ok', expect):
            pr.append(f'positions {a}, the tuples whose date lies in {coarse} are at {expect}')
        yield Case('api:go:date:coarse', dict(base, call=f'loc_to_iloc(HLoc[...]) with the coarser-unit string {coarse!r} at depth {dd}' + (f' under {jl(outer)}' if outer else ''), observed=str(a)),
                   py_fail='; '.join(pr)[:400] or None, tags=tags, key=f'dcoarse|{outer}|{hkey}')
    # -- membership and full-tuple lookup, every spelling, for the last tuple and an early one
    for sp in spellings:
        ks = [last, want[0]]
        spelled = [tuple(spell(x, sp) for x in r) for r in ks]
        got_in = [bool(k in g) for k in spelled]
        ref_in = [bool(k in one) for k in spelled]
        kl = lit.lst([row_lit(k) for k in ks])
        outs = [res_lit(lambda k=k: g.loc_to_iloc(k), lambda v: lit.z(int(v)))[0] for k in spelled]
        refs = [res_lit(lambda k=k: one.loc_to_iloc(k), lambda v: lit.z(int(v)))[0] for k in spelled]
        pf = []
        if got_in != ref_in:
            pf.append(f'membership {got_in}, built in one go {ref_in}')
        if outs != refs:
            pf.append(f'loc_to_iloc(tuple) {outs}, built in one go {refs}')
        yield Case('api:go:date:tuple', dict(base, observe=f'tuple in index, index.loc_to_iloc(tuple), dates spelled as {sp}', keys=[[jl(x) for x in k] for k in ks], observed=[got_in, outs]),
                   m=f'check_contains_M {tl} {kl} {bl(got_in)} && check_lookup_M {tl} {kl} {lit.lst(outs)}',
                   s=f'check_contains_S {rl} {kl} {bl(got_in)} && check_lookup_S {rl} {kl} {lit.lst(outs)}',
                   py_fail='; '.join(pf)[:400] or None, tags=dict(tags, spelling=sp), key=f'dtuple|{sp}|{hkey}')
    # -- containers indexed by the grown index: Series.loc / Frame.loc with the date spelled as str
    if base['via'] == 'ihgo':
        sp = spellings[-1]
        ser = sf.Series(range(n), index=g)
        k = sf.HLoc(tuple([slice(None)] * dd + [spell(dnew, sp)]))
        a = call_class(lambda: [int(x) for x in np.atleast_1d(ser.loc[k].values if hasattr(ser.loc[k], 'values') else ser.loc[k])])
        expect = [i for i, r in enumerate(want) if jl(r[dd]) == jl(dnew)]
        yield Case('api:go:date:series_loc', dict(base, call=f'Series(range(n), index=grown).loc[HLoc[..., {spell(dnew, sp)!r}]]', observed=str(a)),
                   py_fail=None if a == ('ok', expect) else f'selected {a}, the tuples with that date are at {expect}', tags=tags, key=f'dser|{hkey}')


# ----------------------------------------------------------------------------- every public route that builds / rebuilds a hierarchy
def route_cases(ctx):
    '''Coverage-guided (tools/cov_cases.py): every constructor and every method of IndexHierarchy that returns a new
    hierarchy (or reads the tree / the table in its own way) is reached at least once per run on fixed + random trees;
    the result must denote the tuple sequence the operation specifies, with all its views agreeing, and (where the tree is
    rebuilt) be the canonical tree of the from_labels model.'''
    import static_frame as sf
    IH, IHGO = sf.IndexHierarchy, sf.IndexHierarchyGO
    rng = ctx.rng
    fixed = [([('a', 1, 'x'), ('a', 1, 'y'), ('a', 2, 'x'), ('b', 1, 'z'), ('b', 3, 'x')], ['str', 'int', 'str']),
             ([('b', 2), ('b', 1), ('a', 3), ('c', 1)], ['str', 'int']),
             ([('p', 1, 'x', 2), ('p', 1, 'y', 1), ('q', 2, 'x', 1)], ['str', 'int', 'str', 'int'])]
    trees = list(fixed)
    for _ in range(ctx.n(3, 25)):
        depth = rng.choice([2, 3, 3])
        kinds = [rng.choice(['str', 'int']) for _ in range(depth)]
        trees.append((shape_rows(gen_shape(rng, depth, kinds, fan_max=3)), kinds))
    stratum = 'api:routes'

    def ex(name, rows, **kw):
        return dict({'route': name, 'source_rows': [[jl(x) for x in r] for r in rows]}, **kw)

    def built(name, fn, want, rows, canonical=True, **kw):
        '''fn() must return a hierarchy denoting exactly `want`.'''
        ctx.count(f'route:{name}')
        try:
            obj = fn()
        except Exception as e:  # noqa
            obj = e
        if not isinstance(obj, Exception) and not isinstance(obj, sf.IndexHierarchy):
            return Case(stratum + ':derive', ex(name, rows, **kw), py_fail=f'{name} returned {type(obj).__name__}, not an IndexHierarchy', tags={'op': 'route', 'route': name}, key=f'route|{name}|{rows_lit(rows)}')
        return derived_case(ctx, name, obj, [tuple(r) for r in want], stratum, ex(name, rows, **kw), canonical_tree=canonical)

    def permuted(name, fn, want_set, rows, **kw):
        '''fn() must return a hierarchy denoting the tuples `want_set` in SOME tree order.'''
        ctx.count(f'route:{name}')
        try:
            obj = fn()
            got = [tuple(canon(x) for x in r) for r in obj]
        except Exception as e:  # noqa
            return Case(stratum + ':derive', ex(name, rows, **kw), py_fail=f'{name} raised {type(e).__name__}: {e}'[:300], tags={'op': 'route', 'route': name}, key=f'route|{name}|{rows_lit(rows)}')
        if sorted(row_lit(r) for r in got) != sorted(row_lit(r) for r in want_set):
            return Case(stratum + ':derive', ex(name, rows, observed=[[jl(x) for x in r] for r in got], **kw),
                        py_fail=f'{name}: the result holds {len(got)} tuples, not the {len(want_set)} specified ones', tags={'op': 'route', 'route': name}, key=f'route|{name}|{rows_lit(rows)}')
        return derived_case(ctx, name, obj, got, stratum, ex(name, rows, **kw), canonical_tree=True)

    def simple(name, rows, problems, **kw):
        ctx.count(f'route:{name}')
        return Case(stratum + ':value', ex(name, rows, **kw), py_fail='; '.join(problems)[:400] or None, tags={'op': 'route', 'route': name}, key=f'routev|{name}|{rows_lit(rows)}|{json_key(kw)}')

    def attempt(fn):
        try:
            return fn()
        except Exception as e:  # noqa
            return e

    for ti, (rows, kinds) in enumerate(trees):
        depth = len(kinds)
        n = len(rows)
        ih = IH.from_labels(rows)
        shape = None
        # --- constructors
        if depth == 2:
            items = []
            for r in rows:
                if not items or jl(items[-1][0]) != jl(r[0]):
                    items.append((r[0], []))
                items[-1][1].append(r[1])
            yield built('from_index_items', lambda: IH.from_index_items((l, sf.Index(v)) for l, v in items), rows, rows)
            yield built('from_index_items(GO)', lambda: IHGO.from_index_items((l, sf.IndexGO(v)) for l, v in items), rows, rows)
        yield built('from_labels_delimited', lambda: IH.from_labels_delimited(['|'.join(repr(x) for x in r) for r in rows], delimiter='|'), rows, rows)
        yield built('from_labels_delimited(parens)', lambda: IH.from_labels_delimited(['(' + ' '.join(repr(x) for x in r) + ')' for r in rows]), rows, rows)
        tok = object()
        cont = [tuple((tok if i and jl(r[d]) == jl(rows[i - 1][d]) and all(jl(r[e]) == jl(rows[i - 1][e]) for e in range(d)) and d < depth - 1 else r[d]) for d in range(depth)) for i, r in enumerate(rows)]
        yield built('from_labels(continuation_token)', lambda: IH.from_labels(cont, continuation_token=tok), rows, rows)
        sh = rows[:]
        rng.shuffle(sh)
        yield permuted('from_labels(reorder_for_hierarchy)', lambda: IH.from_labels(sh, reorder_for_hierarchy=True), rows, sh)
        yield built('IndexHierarchy(ih) after values', lambda: (lambda a: (a.values, IH(a))[1])(IH.from_labels(rows)), rows, rows)
        yield built('IndexHierarchy(levels, blocks)', lambda: IH(ih._levels, blocks=IH.from_labels(rows)._blocks if IH.from_labels(rows).values is not None else None), rows, rows) if False else simple('noop', rows, [])
        yield built('level_add', lambda: IH.from_labels(rows).level_add('k'), [('k',) + tuple(r) for r in rows], rows)
        yield built('level_add after values', lambda: (lambda a: (a.values, a.level_add('k'))[1])(IH.from_labels(rows)), [('k',) + tuple(r) for r in rows], rows)
        yield built('level_add(GO)', lambda: IHGO.from_labels(rows).level_add('k'), [('k',) + tuple(r) for r in rows], rows)
        if depth >= 3:
            yield built('level_add.level_drop(1)', lambda: IH.from_labels(rows).level_add('k').level_drop(1), rows, rows, canonical=False)
            tails = [tuple(r[1:]) for r in rows]
            if len({r[0] for r in rows}) == 1:
                yield built('level_drop(1)', lambda: IH.from_labels(rows).level_drop(1), tails, rows, canonical=False)
            heads = []
            for r in rows:
                if not heads or row_lit(heads[-1]) != row_lit(r[:-1]):
                    heads.append(tuple(r[:-1]))
            # finding C05-level-drop-inner-offsets: class = some dropped innermost node holds more than one label
            def py_drop_inner(t):
                if t[0] == 'L':
                    return t
                if t[3] and t[3][0][0] == 'L':
                    return ('L', t[1], t[2])
                return ('N', t[1], t[2], [py_drop_inner(k) for k in t[3]])
            d0 = attempt(lambda: IH.from_labels(rows).level_drop(-1))
            is_defect_tree = isinstance(d0, sf.IndexHierarchy) and tree_lit(tree_of(d0._levels)) == tree_lit(py_drop_inner(tree_of(ih._levels)))
            ld = {'_tags': {'finding': 'C05-level-drop-inner-offsets'}} if (len(heads) < n and is_defect_tree) else {}
            dropped = attempt(lambda: IH.from_labels(rows).level_drop(-1))
            if isinstance(dropped, sf.IndexHierarchy):
                ctx.count('route:level_drop(-1):tree')
                yield Case(stratum + ':level_drop_tree', ex('level_drop(-1)', rows, observe='tree (labels, offsets) left behind by level_drop(-1)'),
                           m=f'check_drop_inner_M {tree_lit(tree_of(ih._levels))} {tree_lit(tree_of(dropped._levels))}',
                           tags={'op': 'route', 'route': 'level_drop(-1)'}, key=f'ldtree|{rows_lit(rows)}')
            yield built('level_drop(-1)', lambda: IH.from_labels(rows).level_drop(-1), heads, rows, canonical=False, **ld)
            yield built('level_drop(-1) after values', lambda: (lambda a: (a.values, a.level_drop(-1))[1])(IH.from_labels(rows)), heads, rows, canonical=False, **ld)
        # --- rebuilt through the table
        dm = list(range(depth))
        rng.shuffle(dm)
        yield permuted('rehierarch', lambda: IH.from_labels(rows).rehierarch(dm), [tuple(r[i] for i in dm) for r in rows], rows, depth_map=dm)
        yield built('sort', lambda: IH.from_labels(rows).sort(), sorted(rows), rows)
        yield built('sort(descending)', lambda: IH.from_labels(rows).sort(ascending=False), sorted(rows, reverse=True), rows)
        yield built('fillna', lambda: IH.from_labels(rows).fillna(0), rows, rows)
        up = lambda r: tuple((x.upper() if isinstance(x, str) else x + 10) for x in r)
        yield built('relabel(callable)', lambda: IH.from_labels(rows).relabel(lambda r: up(tuple(r))), [up(r) for r in rows], rows)
        mp = {tuple(rows[-1]): up(rows[-1])}
        mapped = [mp.get(tuple(r), tuple(r)) for r in rows]
        ok_tree = not isinstance(attempt(lambda: IH.from_labels(mapped)), Exception)
        if ok_tree:
            yield built('relabel(mapping)', lambda: IH.from_labels(rows).relabel(mp), mapped, rows)
        di = kinds.index('int') if 'int' in kinds else None
        if di is not None:
            yield built('astype[d](str)', lambda: IH.from_labels(rows).astype[di](str), [tuple(str(x) if d == di else x for d, x in enumerate(r)) for r in rows], rows, depth_retyped=di)
        for k in (1, n - 1) if n > 2 else (1,):
            rolled = rows[-k % n:] + rows[:-k % n] if n else rows
            rolled = [rows[(i - k) % n] for i in range(n)]
            obj = attempt(lambda: IH.from_labels(rows).roll(k))
            ctx.count('route:roll')
            if isinstance(obj, Exception):
                yield Case(stratum + ':roll', ex('roll', rows, shift=k, observed=f'raised {lit.err_class(obj)}'),
                           m=f'check_from_labels_M {rows_lit(rolled)} (Err {lit.s(lit.err_class(obj))})', tags={'op': 'route', 'route': 'roll'}, key=f'roll|{k}|{rows_lit(rows)}')
            else:
                yield derived_case(ctx, 'roll', obj, rolled, stratum, ex('roll', rows, shift=k), canonical_tree=True)
        # --- set operations: the result is a hierarchy of exactly those tuples (order: C06), all views agreeing
        other_rows = rows[n // 2:] + [tuple(list(rows[-1][:-1]) + [{'str': 'zz', 'int': 99}[kinds[-1]]])]
        other = IH.from_labels(other_rows)
        key_ = lambda r: row_lit(r)
        U = {key_(r): tuple(r) for r in rows + other_rows}
        I_ = [r for r in rows if key_(r) in {key_(x) for x in other_rows}]
        Df = [r for r in rows if key_(r) not in {key_(x) for x in other_rows}]
        yield permuted('union', lambda: IH.from_labels(rows).union(other), list(U.values()), rows)
        if I_:
            yield permuted('intersection', lambda: IH.from_labels(rows).intersection(other), I_, rows)
        if Df:
            yield permuted('difference', lambda: IH.from_labels(rows).difference(other), Df, rows)
        yield built('union(self)', lambda: IH.from_labels(rows).union(IH.from_labels(rows)), rows, rows, canonical=False)
        # --- positional / label extraction and dropping
        if n >= 3:
            yield built('__getitem__(slice)', lambda: ih[1:n], rows[1:], rows)
            yield built('__getitem__(list)', lambda: ih[list(range(n - 1))], rows[:n - 1], rows)
            yield built('Series.drop.loc[tuple].index', lambda: sf.Series(range(n), index=IH.from_labels(rows)).drop.loc[tuple(rows[0])].index, rows[1:], rows)
            yield built('Series.drop.iloc[-1].index', lambda: sf.Series(range(n), index=IH.from_labels(rows)).drop.iloc[n - 1].index, rows[:-1], rows)
            first = rows[0][0]
            rest = [r for r in rows if jl(r[0]) != jl(first)]
            if rest:
                yield built('Series.drop.loc[HLoc[label]].index', lambda: sf.Series(range(n), index=IH.from_labels(rows)).drop.loc[sf.HLoc[first]].index, rest, rows)
        # --- values computed their own way
        pr = []
        got = attempt(lambda: tuple(canon(x) for x in ih[n - 1]))
        if isinstance(got, Exception) or row_lit(got) != row_lit(rows[-1]):
            pr.append(f'ih[{n - 1}] = {got}')
        lv = attempt(lambda: [tuple(canon(x) for x in r) for r in IH.from_labels(rows)._levels.values.tolist()])
        if isinstance(lv, Exception) or [row_lit(r) for r in lv] != [row_lit(r) for r in rows]:
            pr.append(f'IndexLevel.values (2-D array built from the tree) differs from the tuples: {str(lv)[:80]}')
        dp = attempt(lambda: sorted(set(IH.from_labels(rows)._levels.depths())))
        if dp != [depth]:
            pr.append(f'IndexLevel.depths() = {dp}')
        for d in range(depth):
            u = attempt(lambda: [canon(x) for x in IH.from_labels(rows).unique(d)])
            wantu = []
            for r in rows:
                if lab(r[d]) not in [lab(x) for x in wantu]:
                    wantu.append(r[d])
            if isinstance(u, Exception) or sorted(lab(x) for x in u) != sorted(lab(x) for x in wantu) or (d == 0 and [lab(x) for x in u] != [lab(x) for x in wantu]):
                pr.append(f'unique({d}) = {u}')
            ia = attempt(lambda: [canon(x) for x in IH.from_labels(rows)._levels.index_at_depth(d)])
            if isinstance(ia, Exception) or sorted(lab(x) for x in set(map(jl, ia)) ) and sorted({lab(x) for x in ia}) != sorted({lab(r[d]) for r in rows}):
                pr.append(f'index_at_depth({d}) = {ia}')
        it = attempt(lambda: [c.__name__ for c in IH.from_labels(rows).index_types.values])
        if it != ['Index'] * depth:
            pr.append(f'index_types = {it}')
        itg = attempt(lambda: [c.__name__ for c in IHGO.from_labels(rows).index_types.values])
        if itg != ['IndexGO'] * depth:
            pr.append(f'index_types (GO) = {itg}')
        a, b_ = IH.from_labels(rows), IHGO.from_labels(rows)
        eqs = attempt(lambda: (a.equals(IH.from_labels(rows)), a.equals(b_), a.equals(b_, compare_class=True), a.equals(IH.from_labels(other_rows)),
                               a.equals(a.rename('x'), compare_name=True), a.equals(a.level_add('k')), a.equals(rows)))
        if eqs != (True, True, False, False, False, False, False):
            pr.append(f'equals(...) = {eqs}')
        strd = [d for d in range(depth) if kinds[d] == 'str']
        if len(strd) == depth:
            vs = attempt(lambda: [tuple(r) for r in IH.from_labels(rows).via_str.upper().tolist()])
            if vs != [tuple(x.upper() for x in r) for r in rows]:
                pr.append(f'via_str.upper() = {str(vs)[:80]}')
        if all(k == 'int' for k in kinds):
            vt = attempt(lambda: (IH.from_labels(rows).via_T * tuple(range(1, n + 1))).tolist())      # one factor per ROW
            if vt != [[x * (i + 1) for x in r] for i, r in enumerate(rows)]:
                pr.append(f'via_T * (1..) = {str(vt)[:80]}')
            un = attempt(lambda: (-IH.from_labels(rows)).tolist())
            if un != [[-x for x in r] for r in rows]:
                pr.append(f'-ih = {str(un)[:80]}')
            sm = attempt(lambda: IH.from_labels(rows).sum(axis=1).tolist() if hasattr(IH, 'sum') else None)
            if sm is not None and sm != [sum(r) for r in rows]:
                pr.append(f'sum(axis=1) = {str(sm)[:80]}')
        fg = attempt(lambda: [tuple(canon(x) for x in r) for r in IH.from_labels(rows).to_frame_go().values.tolist()])
        if isinstance(fg, Exception) or [row_lit(r) for r in fg] != [row_lit(r) for r in rows]:
            pr.append(f'to_frame_go() = {str(fg)[:80]}')
        if n >= 2:
            sl = attempt(lambda: canon_iloc(IH.from_labels(rows).loc_to_iloc(slice(tuple(rows[0]), tuple(rows[-2]))), n)[1])
            if sl != list(range(0, n - 1)):
                pr.append(f'loc_to_iloc(slice(first tuple, last-but-one tuple)) = {sl}')
            ls = attempt(lambda: [int(x) for x in IH.from_labels(rows).loc_to_iloc([tuple(rows[-1]), tuple(rows[0])])])
            if ls != [n - 1, 0]:
                pr.append(f'loc_to_iloc([last tuple, first tuple]) = {ls}')
            ihk = attempt(lambda: [int(x) for x in IH.from_labels(rows).loc_to_iloc(IH.from_labels(rows[1:]))])
            if ihk != list(range(1, n)):
                pr.append(f'loc_to_iloc(IndexHierarchy of the tail) = {ihk}')
            il = attempt(lambda: IH.from_labels(rows).loc_to_iloc(sf.ILoc[-1]))
            if il != -1:
                pr.append(f'loc_to_iloc(ILoc[-1]) = {il}')
            sser = attempt(lambda: [int(x) for x in sf.Series(range(n), index=IH.from_labels(rows)).loc[tuple(rows[0]):tuple(rows[1])].values])
            if sser != [0, 1]:
                pr.append(f'Series.loc[first tuple : second tuple] = {sser}')
        bad = attempt(lambda: IH.from_labels(rows).loc_to_iloc(rows[0][0]))
        if not isinstance(bad, KeyError):
            pr.append(f'loc_to_iloc(bare label) = {bad!r}, a bare label is no tuple of the index')
        yield simple('values-computed-their-own-way', rows, pr, observe='ih[i], IndexLevel.values, depths, unique(d), index_at_depth(d), index_types, equals, via_str, via_T, unary, to_frame_go, loc_to_iloc(slice of tuples / list of tuples / IndexHierarchy / ILoc / bare label)')
        # --- zero-length hierarchies and growth from them
        for nm, mk in (('from_names', lambda: IHGO.from_names(tuple(f'n{d}' for d in range(depth)))),
                       ('from_labels((), depth_reference)', lambda: IHGO.from_labels((), depth_reference=depth)),
                       ('from_labels(empty 2-D array)', lambda: IHGO.from_labels(np.empty((0, depth), dtype=object)))):
            pr = []
            g = attempt(mk)
            if isinstance(g, Exception):
                yield simple(nm, rows, [f'{nm} raised {type(g).__name__}: {g}'])
                continue
            z = attempt(lambda: (len(g), g.depth, tuple(g.shape), list(g), tuple(g.values.shape), [len(g.values_at_depth(d)) for d in range(depth)], tuple(rows[0]) in g))
            if z != (0, depth, (0, depth), [], (0, depth), [0] * depth, False):
                pr.append(f'zero-length views (len, depth, shape, list, values.shape, values_at_depth lens, in) = {z}')
            yield simple(nm, rows, pr)
            g = attempt(mk)
            grown = attempt(lambda: [g.append(tuple(r)) for r in rows])
            if isinstance(grown, Exception):
                yield simple(nm + ' then appends', rows, [f'append raised {type(grown).__name__}: {grown}'])
            else:
                yield derived_case(ctx, nm + ' then appends', g, [tuple(r) for r in rows], stratum, ex(nm + ' then appends', rows), canonical_tree=True)
        # --- rejected extends leave the object as it was
        g = IHGO.from_labels(rows)
        bad_ops = [('extend(other depth)', lambda: g.extend(IH.from_labels([tuple(r) + ('q',) for r in rows]))),
                   ('extend(same outer labels)', lambda: g.extend(IH.from_labels(rows))),
                   ('append(existing)', lambda: g.append(tuple(rows[0]))),
                   ('append(too short)', lambda: g.append(tuple(rows[0][:-1])))]
        for nm, op in bad_ops:
            r_ = attempt(op)
            if not isinstance(r_, Exception):
                yield simple(nm, rows, [f'{nm} was accepted'])
                break
            yield derived_case(ctx, nm + ' rejected', g, [tuple(r) for r in rows], stratum, ex(nm, rows, raised=lit.err_class(r_)), canonical_tree=True)
    # --- fixed small routes (each reached once per run)
    r4 = [('a', 1), ('a', 3), ('b', 2), ('c', 1)]
    ih4 = IH.from_labels(r4)
    checks = [
        ('iter_label(0).apply', lambda: IH.from_labels(r4).iter_label(0).apply(lambda x: x + '!').tolist(), ['a!', 'a!', 'b!', 'c!']),
        ('iter_label(1).apply_iter_items', lambda: [(int(i), int(v)) for i, v in IH.from_labels(r4).iter_label(1).apply_iter_items(lambda x: x * 2)], [(0, 2), (1, 6), (2, 4), (3, 2)]),
        ('iter_label(1).apply after values', lambda: (lambda a: (a.values, a.iter_label(1).apply(lambda x: x * 2).tolist())[1])(IH.from_labels(r4)), [2, 6, 4, 2]),
        ('ndim', lambda: ih4.ndim, 2),
        ('mloc is an array of the depth', lambda: len(IH.from_labels(r4).mloc), 2),
        ('display(type_show=False)', lambda: [ln.split() for ln in str(IH.from_labels(r4).display(sf.DisplayConfig(type_show=False))).split('\n')], [[str(x) for x in r] for r in r4]),
        ('union(equal) is the index', lambda: [tuple(canon(x) for x in r) for r in ih4.union(IH.from_labels(r4))], r4),
        ('difference(equal) is empty, depth kept', lambda: (lambda d: (len(d), d.depth, list(d)))(ih4.difference(IH.from_labels(r4))), (0, 2, [])),
        ('intersection(equal)', lambda: [tuple(canon(x) for x in r) for r in IHGO.from_labels(r4).intersection(IH.from_labels(r4))], r4),
        ('union(2-D array)', lambda: sorted(tuple(canon(x) for x in r) for r in ih4.union(np.array([['d', 1], ['a', 1]], dtype=object))), sorted(r4 + [('d', 1)])),
        ('union(iterable of tuples)', lambda: sorted(tuple(canon(x) for x in r) for r in ih4.union([('d', 1), ('a', 1)])), sorted(r4 + [('d', 1)])),
        ('union(other depth) raises', lambda: lit.err_class(attempt(lambda: ih4.union(IH.from_labels([('a', 1, 'x')])))), 'ErrorInitIndex'),
        ('_drop_loc(tuple)', lambda: [tuple(canon(x) for x in r) for r in IH.from_labels(r4)._drop_loc(('a', 3))], [r4[0], r4[2], r4[3]]),
        ('_drop_loc(HLoc)', lambda: [tuple(canon(x) for x in r) for r in IH.from_labels(r4)._drop_loc(sf.HLoc['a'])], r4[2:]),
        ('_drop_iloc(list) on GO after append', lambda: (lambda g: (g.values, g.append(('c', 2)), [tuple(canon(x) for x in r) for r in g._drop_iloc([0, 1])])[2])(IHGO.from_labels(r4)), r4[2:] + [('c', 2)]),
        ('-ih', lambda: (-IH.from_labels([(1, 2), (3, 4)])).tolist(), [[-1, -2], [-3, -4]]),
        ('ih == ih2 elementwise', lambda: (IH.from_labels([(1, 2), (3, 4)]) == IH.from_labels([(1, 2), (3, 5)])).tolist(), [[True, True], [True, False]]),
        ('GO after append == values (table refreshed for both operands)', lambda: (lambda g, h: (g.values, h.values, g.append((5, 6)), h.append((5, 6)), (g == h).tolist())[4])(IHGO.from_labels([(1, 2), (3, 4)]), IHGO.from_labels([(1, 2), (3, 4)])), [[True, True]] * 3),
        ('ih * Index', lambda: (IH.from_labels([(1, 2), (3, 4)]) * sf.Index((10, 100))).tolist(), [[10, 200], [30, 400]]),
        ('ih @ vector', lambda: (IH.from_labels([(1, 2), (3, 4)]) @ np.array([1, 1])).tolist(), [3, 7]),
        ('via_T * per-row factors', lambda: (IH.from_labels([(1, 2), (3, 4), (5, 6)]).via_T * (1, 10, 100)).tolist(), [[1, 2], [30, 40], [500, 600]]),
        ('via_dt.year', lambda: IH.from_labels([(np.datetime64('2020-01-01'), np.datetime64('2021-03-02')), (np.datetime64('2022-01-01'), np.datetime64('2021-03-05'))]).via_dt.year.tolist(), [[2020, 2021], [2022, 2021]]),
        ('via_str.upper on GO after append', lambda: (lambda g: (g.values, g.append(('c', 'z')), g.via_str.upper().tolist())[2])(IHGO.from_labels([('a', 'x'), ('b', 'y')])), [['A', 'X'], ['B', 'Y'], ['C', 'Z']]),
        ('unique([0, 1])', lambda: [tuple(x) for x in IH.from_labels([('a', 1, 'x'), ('a', 1, 'y'), ('b', 1, 'x')]).unique([0, 1]).tolist()], [('a', 1), ('b', 1)]),
        ('unique([2])', lambda: IH.from_labels([('a', 1, 'x'), ('a', 1, 'y'), ('b', 1, 'x')]).unique([2]).tolist(), ['x', 'y']),
        ('sample keeps index order and views', lambda: (lambda smp: (len(smp), all(tuple(canon(x) for x in r) in r4 for r in smp), [tuple(canon(x) for x in r) for r in smp] == [tuple(canon(x) for x in r) for r in smp.values.tolist()],
                                                                     [r4.index(tuple(canon(x) for x in r)) for r in smp] == sorted(r4.index(tuple(canon(x) for x in r)) for r in smp)))(IH.from_labels(r4).sample(2, seed=3)), (2, True, True, True)),
        ('iloc_searchsorted', lambda: (int(IH.from_labels([('a', 1), ('a', 3), ('b', 2)]).iloc_searchsorted(('a', 2))), IH.from_labels([('a', 1), ('a', 3), ('b', 2)]).iloc_searchsorted([('a', 2), ('c', 0)]).tolist()), (1, [1, 3])),
        ('loc_searchsorted', lambda: tuple(canon(x) for x in IH.from_labels([('a', 1), ('a', 3), ('b', 2)]).loc_searchsorted(('a', 2))), ('a', 3)),
        ('level_drop(1) to a flat Index', lambda: (lambda i: (type(i).__name__, i.values.tolist()))(IH.from_labels([('a', 1), ('a', 3), ('b', 2)]).level_drop(1)), ('Index', [1, 3, 2])),
        ('level_drop(-1) to a flat Index', lambda: (lambda i: (type(i).__name__, i.values.tolist()))(IH.from_labels([('a', 1), ('b', 2)]).level_drop(-1)), ('Index', ['a', 'b'])),
        ('level_drop names', lambda: (lambda mk: (mk().level_drop(1).name, mk().level_drop(-1).name, mk().level_drop(-2).name))(lambda: IH.from_labels([('a', 1, 'x'), ('b', 2, 'y')], name=('p', 'q', 'r'))), (('q', 'r'), ('p', 'q'), 'p')),
        ('level_drop(0) raises', lambda: lit.err_class(attempt(lambda: ih4.level_drop(0))), 'NotImplementedError'),
        ('HLoc len / default', lambda: (len(sf.HLoc['a', 1]), sf.HLoc['a'][3]), (2, slice(None))),
        ('IndexLevel.loc_to_iloc(Boolean array)', lambda: ih4._levels.loc_to_iloc(np.array([True, False, True, False])).tolist(), [True, False, True, False]),
        ('IndexLevel.equals(other class / length / depth)', lambda: (ih4._levels.equals(ih4._levels), ih4._levels.equals(IHGO.from_labels(r4)._levels, compare_class=True), ih4._levels.equals(3),
                                                                     ih4._levels.equals(IH.from_labels(r4[:3])._levels), ih4._levels.equals(IH.from_labels([r + ('x',) for r in r4])._levels),
                                                                     ih4._levels.equals(IH.from_labels([('a', 1), ('a', 3), ('b', 2), ('c', 9)])._levels)), (True, False, False, False, False, False)),
    ]
    errors = [
        ('from_labels(reorder, continuation_token)', lambda: IH.from_labels(r4, reorder_for_hierarchy=True, continuation_token=None), 'RuntimeError'),
        ('from_labels(index_constructors of other length)', lambda: IH.from_labels(r4, index_constructors=[sf.Index]), 'ErrorInitIndex'),
        ('from_labels(depth 1)', lambda: IH.from_labels([('a',), ('b',)]), 'ErrorInitIndex'),
        ('from_labels(empty array, other depth_reference)', lambda: IH.from_labels(np.empty((0, 3)), depth_reference=2), 'ErrorInitIndex'),
        ('from_labels_delimited(one label)', lambda: IH.from_labels_delimited(['a']), 'RuntimeError'),
        ('from_labels_delimited(unquoted)', lambda: IH.from_labels_delimited(['a 1']), 'ValueError'),
        ('IndexHierarchy(ih, blocks=)', lambda: IH(ih4, blocks=IH.from_labels(r4)._levels.to_type_blocks()), 'ErrorInitIndex'),
        ('IndexHierarchy(list)', lambda: IH([1, 2]), 'NotImplementedError'),
        ('IndexHierarchy(depth-1 levels)', lambda: IH(sf.IndexLevel(sf.Index(('a', 'b')))), 'ErrorInitIndex'),
        ('from_product(one level)', lambda: IH.from_product(('a', 'b')), 'RuntimeError'),
        ('IndexLevelGO.extend(leaf level)', lambda: IHGO.from_labels(r4)._levels.extend(sf.IndexLevel(sf.Index(('z',)))), 'RuntimeError'),
        ('extend(other index classes)', lambda: IHGO.from_labels(r4).extend(IH.from_labels([('z', '2020-01-01')], index_constructors=[sf.Index, sf.IndexDate])), 'RuntimeError'),
        ('loc_to_iloc(HLoc of absent label)', lambda: ih4.loc_to_iloc(sf.HLoc['zz']), 'KeyError'),
        ('loc_to_iloc(slice with absent tuple)', lambda: ih4.loc_to_iloc(slice(('a', 1), ('zz', 1))), 'KeyError'),
    ]
    for nm, fn, expect in checks:
        got = attempt(fn)
        ok = (not isinstance(got, Exception)) and (got == expect or (isinstance(expect, list) and list(got) == expect))
        yield simple(nm, r4, [] if ok else [f'{nm}: got {got!r}, the tuples demand {expect!r}'])
    for nm, fn, cls in errors:
        got = attempt(fn)
        okc = isinstance(got, Exception) and lit.err_class(got) == cls
        yield simple(nm + ' is rejected', r4, [] if okc else [f'{nm}: got {got!r}, a {cls} is demanded (no hierarchy denotes that input)'])
    # --- labels that are themselves tuples (object level)
    trows = [(('p', 1), 'x'), (('p', 1), 'y'), (('q', 2), 'x')]
    t = attempt(lambda: IH.from_labels(trows))
    pr = []
    if isinstance(t, Exception):
        pr.append(f'from_labels with tuple labels raised {type(t).__name__}')
    else:
        z = attempt(lambda: ([tuple(r) for r in t], [tuple(x) for x in t.values_at_depth(0).tolist()], [tuple(r) for r in t.values.tolist()], len(t), (('q', 2), 'x') in t, t.loc_to_iloc((('q', 2), 'x'))))
        if z != (trows, [r[0] for r in trows], trows, 3, True, 2):
            pr.append(f'views of a hierarchy whose outer labels are tuples: {str(z)[:200]}')
    yield simple('tuple-labels', trows, pr)


def auto_int_leaf_cases(ctx):
    '''Hierarchies whose leaves are AUTO-INTEGER indices (loc_is_iloc: `_map is None`), as IndexHierarchy.from_index_items /
    Frame.from_concat_items build them from the default indices of frames: Index._loc_to_iloc then takes its own branch
    (index.py:947-979) -- no label map, no membership test.'''
    import static_frame as sf
    rng = ctx.rng
    shapes = [(3, 2), (2, 4, 1), (1, 3)] + [tuple(rng.randint(1, 4) for _ in range(rng.randint(2, 3))) for _ in range(ctx.n(2, 12))]
    for lens in shapes:
        outer = POOLS['str'][:len(lens)]
        frames = [sf.Frame(np.arange(k * 2).reshape(k, 2) + 100 * i) for i, k in enumerate(lens)]
        rows = [(o, j) for o, k in zip(outer, lens) for j in range(k)]
        n = len(rows)
        for cls_name, mk in (('from_index_items', lambda: sf.IndexHierarchy.from_index_items(zip(outer, (f.index for f in frames)))),
                             ('from_concat_items.index', lambda: sf.Frame.from_concat_items(zip(outer, frames)).index)):
            ih = mk()
            if any(l.index._map is not None for l in ih._levels.targets):
                continue
            tree = tree_of(ih._levels)
            yield from observe_views(ctx, ih, rows, 'auto-int:' + cls_name)
            lo = min(lens)
            keys = []
            for o_sel in ([('all',)] + [('one', o) for o in outer[:2]]):
                present = [('one', 0), ('one', lo - 1), ('list', list(range(lo))[::-1]), ('slice', 0, lo - 1), ('all',)]
                if lo > 1:
                    present.append(('step', lo - 1, 0, -1))
                risky = [('one', lo), ('one', max(lens)), ('list', [0, lo]), ('slice', 0, None), ('slice', None, 0), ('slice', 1, None), ('slice', 0, lo)]
                keys += [([o_sel, s_], False) for s_ in present] + [([o_sel, s_], True) for s_ in risky]
            for key, risky in keys:
                # an explicit outer label narrows the visited leaves: then the class is decided by that leaf alone
                c = hloc_case(ctx, ih, tree, rows, key, 'auto-int:' + cls_name, stratum='api:hloc:auto-int-leaves')
                c.m = None           # M models the label-map branch of Index._loc_to_iloc, not the loc_is_iloc branch
                if risky:
                    # excuse only the recorded wrong result (key + offset without a membership test; open slice ends
                    # unbounded), never another failure on the same input
                    rec = recorded_wrong_positions('C05-hloc-auto-integer-leaf', rows, key, 2)
                    obs_ps = None
                    try:
                        obs_ps = canon_iloc(ih.loc_to_iloc(hloc_of(key)), n)[1]
                    except Exception:  # noqa
                        pass
                    c.tags['finding_class'] = 'C05-hloc-auto-integer-leaf'
                    if rec is not None and obs_ps == rec:
                        c.tags['finding'] = 'C05-hloc-auto-integer-leaf'
                yield c
            ks = [(o, j) for o in outer for j in (0, lo, max(lens))]
            kl = lit.lst([row_lit(k) for k in ks])
            got_in = [bool(k in ih) for k in ks]
            outs = [res_lit(lambda k=k: ih.loc_to_iloc(k), lambda v: lit.z(int(v)))[0] for k in ks]
            yield Case('api:hloc:auto-int-leaves:tuple', {'route': cls_name, 'rows': [[jl(x) for x in r] for r in rows], 'keys': [[jl(x) for x in k] for k in ks], 'observed': [got_in, outs]},
                       s=f'check_contains_S {rows_lit(rows)} {kl} {bl(got_in)} && check_lookup_S {rows_lit(rows)} {kl} {lit.lst(outs)}',
                       tags={'route': cls_name, 'op': 'auto-int-tuple'}, key=f'autoint-tuple|{cls_name}|{rows_lit(rows)}')


def hloc_first_cases(ctx):
    '''EXHAUSTIVE: append a NEW INNERMOST label to an EXISTING leaf (same parent path) of an IndexHierarchyGO / of the
    hierarchical columns of a FrameGO, then ONE selection as the VERY FIRST reader (a fresh history per selector): str,
    int and date leaves; `:` explicit / omitted, labels, lists, open and closed slices, stepped slices, coarser-unit dates.'''
    import static_frame as sf
    D = lambda x: np.datetime64(x, 'D')
    starts = [
        ('d2-int', None, [('a', 1), ('a', 2), ('b', 1)], [('b', 2), ('b', 3)]),
        ('d2-str', None, [('a', 'x'), ('a', 'y'), ('b', 'x')], [('b', 'y'), ('b', 'z')]),
        ('d3-str', None, [('a', 1, 'x'), ('a', 1, 'y'), ('b', 2, 'x')], [('b', 2, 'y'), ('b', 2, 'z')]),
        ('d3-int', None, [('y', 'p', 10), ('y', 'p', 20), ('z', 'q', 10)], [('z', 'q', 20), ('z', 'q', 30)]),
        ('d2-date', [sf.Index, sf.IndexDate], [('a', D('2020-01-01')), ('a', D('2020-01-03')), ('b', D('2020-01-02'))], [('b', D('2020-01-05')), ('b', D('2020-02-01'))]),
    ]
    for sname, ctors, rows0, adds in starts:
        depth = len(rows0[0])
        for n_add in (1, 2):
            want = list(rows0) + adds[:n_add]
            n = len(want)
            last = want[-1]
            new = last[-1]
            leaf = [r[-1] for r in want if r[:-1] == last[:-1]]
            pre = [('one', x) for x in last[:-1]]
            al = [('all',)] * (depth - 1)
            keys = [pre, pre + [('all',)], [('one', last[0])], al + [('all',)], al + [('list', [new])], al + [('one', new)], pre + [('one', new)],
                    pre + [('slice', new, None)], pre + [('slice', None, new)], pre + [('slice', leaf[0], new)], pre + [('list', [new, leaf[0]])],
                    pre + [('step', new, leaf[0], -1)], pre + [('step', leaf[0], new, 2)], al + [('slice', leaf[0], None)]]
            coarse = ([str(new)[:7]] if isinstance(new, np.datetime64) else [])
            for via in ('ihgo', 'framego'):
                for materialise in (False, True):
                    if ctx.tier == 'quick' and materialise and via == 'framego':
                        continue
                    for ki, key in enumerate(keys + [('coarse', c) for c in coarse]):
                        g = sf.IndexHierarchyGO.from_labels(rows0, index_constructors=ctors) if ctors else sf.IndexHierarchyGO.from_labels(rows0)
                        frame = sf.FrameGO.from_records([list(range(len(rows0)))], columns=g) if via == 'framego' else None
                        if materialise:
                            _ = (frame.columns if frame is not None else g).values
                        for i, k_ in enumerate(adds[:n_add]):
                            if frame is not None:
                                frame[k_] = [len(rows0) + i]
                            else:
                                g.append(k_)
                        # ---- the selection is the very first reader
                        is_coarse = isinstance(key, tuple) and key[0] == 'coarse'
                        if is_coarse:
                            hk = sf.HLoc(tuple([sel_py(s_) for s_ in pre] + [key[1]]))
                        else:
                            hk = hloc_of(key)
                        if frame is not None:
                            def run():
                                r = frame.loc[:, hk]
                                if isinstance(r, sf.Frame):
                                    cols = [tuple(canon(x) for x in c) for c in r.columns]
                                    vals = [int(x) for x in r.iloc[0].values]
                                    return False, cols, vals
                                return True, [], [int(np.atleast_1d(r.values)[0])]
                            try:
                                single, cols, vals = run()
                                ps = vals                                   # the payload of column i is i
                                if cols and [row_lit(c) for c in cols] != [row_lit(want[p]) for p in ps if p < n]:
                                    ps = ps + [-1]                          # labels and payload torn apart
                                txt, out = f'(Ok {hres_lit(single, ps)})', (single, ps)
                            except Exception as e:  # noqa
                                txt, out = f'(Err {lit.s(lit.err_class(e))})', e
                            gi = frame.columns
                            call = "f[key] = ...; f.loc[:, HLoc[...]] as the first read (positions read back from the payload)"
                        else:
                            txt, out = res_lit(lambda: canon_iloc(g.loc_to_iloc(hk), n), lambda v: hres_lit(*v))
                            gi = g
                            call = 'g.append(key); g.loc_to_iloc(HLoc[...]) as the first read'
                        ctx.count(f'go:hloc-first:{sname}:{via}')
                        extra = {'start_rows': [[jl(x) for x in r] for r in rows0], 'appended': [[jl(x) for x in r] for r in adds[:n_add]], 'via': via,
                                 'table_materialised_before': materialise, 'call': call}
                        if is_coarse:
                            expect = [i for i, r in enumerate(want) if r[:-1] == last[:-1] and str(r[-1]).startswith(key[1])]
                            got = None if isinstance(out, Exception) else sorted(out[1])
                            yield Case('api:go:hloc_first:coarse', dict(extra, key=[sel_json(s_) for s_ in pre] + [key[1]], observed=txt),
                                       py_fail=None if got == expect else f'selected {txt}, the tuples under {[jl(x) for x in last[:-1]]} whose date lies in {key[1]} are at {expect}',
                                       tags={'op': 'hloc-first', 'via': via}, key=f'hfirst-coarse|{sname}|{via}|{materialise}|{n_add}')
                            continue
                        tree = tree_of(gi._levels)
                        c = hloc_case(ctx, gi, tree, want, key, 'go-first-reader', stratum='api:go:hloc_first', obs=(txt, out), extra=extra)
                        if via == 'framego' and not isinstance(out, Exception) and out[0]:
                            c.m = None          # a single column comes back as a Series: M's flag describes loc_to_iloc, S decides
                        if isinstance(new, np.datetime64) and any(s_[0] == 'step' for s_ in key):
                            pass
                        yield c


def go_cases(ctx):
    rng = ctx.rng
    yield from hloc_first_cases(ctx)
    yield from auto_int_leaf_cases(ctx)
    yield from route_cases(ctx)
    yield from date_history_cases(ctx)
    yield from first_read_cases(ctx)
    yield from short_history_cases(ctx)
    for _ in range(ctx.n(30, 300)):
        depth = rng.choice([2, 3, 3, 4])
        kinds = gen_kinds(rng, depth)
        shape = gen_shape(rng, depth, kinds, fan_max=2)
        rows0 = shape_rows(shape)
        # script generated against the reference rows (assuming the property holds)
        ref = list(rows0)
        script = []
        for _ in range(rng.randint(1, ctx.n(6, 10))):
            r = rng.random()
            if r < 0.55:
                key, cls = gen_append_key(rng, ref, kinds)
                if cls in ('leaf', 'branch'):
                    ref = ref + [key]
                script.append(('append', key, cls, random_probes(rng, ref, kinds) if rng.random() < 0.6 else []))
            elif r < 0.7:
                used = {jl(x[0]) for x in ref}
                free = [l for l in POOLS[kinds[0]] if jl(l) not in used]
                oshape = gen_shape(rng, depth, kinds, fan_max=2)
                orows = shape_rows(oshape)
                roots = []
                for x in orows:
                    if jl(x[0]) not in [jl(y) for y in roots]:
                        roots.append(x[0])
                if free and len(free) >= len(roots) and rng.random() < 0.8:
                    ren = dict(zip([jl(x) for x in roots], rng.sample(free, len(roots))))
                    orows = [(ren[jl(x[0])],) + tuple(x[1:]) for x in orows]
                    ref = ref + orows
                    script.append(('extend', orows, 'valid', random_probes(rng, ref, kinds) if rng.random() < 0.6 else []))
                else:
                    clash = [jl(x) for x in roots if jl(x) in used]
                    if not clash:
                        continue
                    first_clash = min(i for i, x in enumerate(roots) if jl(x) in used)
                    script.append(('extend', orows, 'partial' if first_clash > 0 else 'clash'))
                    if first_clash > 0:
                        break
            else:
                what = rng.choice(['values', 'column', 'len', 'hloc'])
                if what == 'hloc':
                    script.append(('read', 'hloc', random_key(rng, ref, kinds)))
                else:
                    script.append(('read', what, rng.randrange(depth)))
        yield from go_history(ctx, rng, rows0, kinds, script)


def malformed_cases(ctx):
    '''Label sequences that are not tree ordered / not unique / ragged: from_labels must reject them or represent them exactly.'''
    import static_frame as sf
    rng = ctx.rng
    for _ in range(ctx.n(40, 400)):
        depth = rng.choice([2, 3])
        kinds = gen_kinds(rng, depth)
        if 'date' in kinds:
            kinds = ['str' if k == 'date' else k for k in kinds]
        shape = gen_shape(rng, depth, kinds, fan_max=3)
        rows = shape_rows(shape)
        how = rng.choice(['shuffle', 'dup', 'ragged', 'swap'])
        if how == 'shuffle':
            rows = rows[:]
            rng.shuffle(rows)
        elif how == 'dup':
            rows = rows + [rng.choice(rows)]
        elif how == 'swap' and len(rows) > 2:
            i, j = rng.sample(range(len(rows)), 2)
            rows = rows[:]
            rows[i], rows[j] = rows[j], rows[i]
        elif how == 'ragged':
            i = rng.randrange(len(rows))
            rows = rows[:i] + [rows[i][:-1] if rng.random() < 0.5 else rows[i] + (rows[i][-1],)] + rows[i + 1:]
        ctx.count(f'malformed:{how}')
        rl = rows_lit(rows)
        txt, ih = res_lit(lambda: sf.IndexHierarchy.from_labels(rows), lambda v: tree_lit(tree_of(v._levels)))
        problems = []
        if not isinstance(ih, Exception):
            got = snapshot(ih)
            if [row_lit(r) for r in got] != [row_lit(r) for r in rows]:
                problems.append(f'from_labels accepted the sequence but list(ih) = {[[jl(x) for x in r] for r in got]}')
            problems += views_disagree(ih, got)
        yield Case('malformed:from_labels', {'rows': [[jl(x) for x in r] for r in rows], 'how': how, 'observed': txt},
                   m=f'check_from_labels_M {rl} {txt}', py_fail='; '.join(problems) or None,
                   tags={'op': 'construct', 'malformed': how}, nontrivial=isinstance(ih, Exception), key=f'mal|{rl}')


def guard(gen, stratum):
    '''Run a stratum; an exception that escapes from the implementation (innermost frames inside static_frame /
    numpy) on inputs inside the claim is a violation of the property, not a crash of the harness.  Exceptions
    raised by harness code are re-raised (machinery error).'''
    import traceback
    try:
        yield from gen
    except Exception as e:  # noqa
        frames = traceback.extract_tb(e.__traceback__)
        inner = frames[-1].filename.replace('\\', '/')
        if '/static_frame/' not in inner and '/numpy/' not in inner:
            raise
        ours = [f for f in frames if f.filename.endswith('c05.py')]
        at = f'{ours[-1].name}:{ours[-1].lineno}' if ours else '?'
        sf_frame = [f for f in frames if '/static_frame/' in f.filename.replace('\\', '/')]
        where = f'{sf_frame[-1].filename.split("/static_frame/")[-1]}:{sf_frame[-1].lineno} {sf_frame[-1].name}' if sf_frame else inner
        yield Case(stratum + ':raised', {'stratum': stratum, 'harness_call_site': at, 'raised_in': where, 'error': f'{type(e).__name__}: {e}'[:300]},
                   py_fail=f'the implementation raised {type(e).__name__} ({where}) on an input inside the claim (harness {at}): {e}'[:400],
                   tags={'op': 'raised', 'stratum': stratum}, key=f'raised|{stratum}|{at}|{type(e).__name__}')


def cases(ctx):
    yield from guard(corpus_cases(ctx), 'corpus')
    yield from guard(construct_cases(ctx), 'api:construct')
    yield from guard(hloc_cases(ctx), 'api:hloc')
    yield from guard(go_cases(ctx), 'api:go')
    yield from guard(malformed_cases(ctx), 'malformed')
