'''C07 -- no lossy coercion when values of different types meet.'''
import datetime
import itertools
import math
import warnings

import numpy as np

from .. import lit
from .. import zoo
from ..core import Case

ID = 'C07'
MANIFEST = {
    'text': ('Coq theorems, unbounded, about util.resolve_dtype REGENERATED from /repo on every run (resolve_refines: equal to the typed SF.Coerce.resolve on '
             'every dtype pair): C07_resolve_dtype_no_loss (outside the explicit lossy pairs the chosen dtype holds every value of either side: all string '
             'widths, all integers, all binary floats, all datetime64/timedelta64 units), C07_resolve_dtype_comm, C07_nary_no_loss (the loops of '
             'resolve_dtype_iter with its early return and of concat_resolved equal the left fold of the regenerated kernel and keep every value, any number '
             'of participants), C07_dtype_from_element_holds, C07_fill_no_loss, C07_fill/fillr/concat/row_operation_lossless (an observation accepted by the '
             'implementation model M for element-meets-column, concatenation, row consolidation satisfies the specification S for every arrangement and '
             'number of cells), C07_iter_flags_spec + C07_iter_object_no_loss (the flag loop of prepare_iter_for_array), C07_iter_object_cond_source and '
             'C07_big_int_threshold_exact (decision and threshold read from the source AST), C07_fill_value_held (regenerated dtype_to_fill_value), '
             'C07_model_sound, C07_bloc_untouched_dtype (Boolean-target assignment keeps untargeted columns for every layout without mixed blocks), '
             'C07_grown_step_source (the append step read from the AST), C07_grown_row_no_loss (the row dtype cached by TypeBlocks.append of a table grown block by block is the common dtype or object: no cell is lost). '
             'Correspondence through the public interface: Series/Frame/Index reindex, shift, fillna*, assign (iloc/loc/bloc/column/row), insert, '
             'from_concat, from_overlay, from_records/from_dict/from_items, row consolidation (iloc[row], values, transpose, iter_array), IndexGO.append/extend, '
             'Frame.assign.iloc[rows, cols](Frame) over value frames with columns of different dtypes/widths on every target layout, fillna_forward/backward(axis=1) across adjacent blocks of different dtype, '
             'Frame.pivot_unstack over ragged/complete target orders (new columns that needed no fill keep the source dtype exactly), '
             'coverage-guided routes (from_concat_items, axis-0 concat over column unions and incompatible block layouts, FrameGO setitem/extend with misaligned Series, '
             'from_items with Series, assign.bloc with array/Frame/Series values, fillna_leading and sided fills on axis 1, shift on both axes, reindex without common labels, '
             'row subsets, join_left/outer/inner, pivot_stack, Index and IndexHierarchy union/intersection/difference, hierarchy levels of mixed dtype, generator/dict/records_items constructors), '
             'Series.fillna(Series) and Series.from_overlay(index=...) on entirely / partly missing receivers with fill labels covering some, none, a proper subset or outside labels (a cell is the value supplied under its label or still missing), '
             'FrameGO grown column by column (setitem, extend with Series/Frame, extend_items) then every row route (values, iter_array/iter_tuple/iter_series axis 1, iloc[row], transpose, to_pairs(1)) '
             'over a 43-dtype x 57-element grid and every block layout, each case evaluated inside Coq against M (result dtype + which cells survive) and S '
             '(every stored cell is the supplied cell; untouched columns keep their dtype); kernel sweeps of resolve_dtype (47x47), dtype_from_element, '
             'dtype_to_fill_value, dtype_kind_to_na, resolve_dtype_iter/concat_resolved, prepare_iter_for_array.'),
    'note': ('trusted: Coq kernel, py2v translator, PyDyn semantics, harness, the hand oracle np_result_type (swept against NumPy on the dtype grid every run; '
             'a mismatch is a machinery error) and np_promote/np_discover (NumPy dtype discovery; validated by the iterable strata). M is a column-level model '
             '(dtype decision + per-cell survival); a lost cell is predicted only as "differs from the supplied one". The hand transcriptions of '
             'dtype_from_element / resolve_dtype_iter / concat_resolved / full_for_fill / prepare_iter_for_array are guarded by AST shape hashes (fail closed). '
             'Partial: composite paths (from_overlay over a union index, fillna(Frame), Frame.from_overlay) are compared with S only. Known findings (9): '
             'int64/uint64 meeting float/complex or uint64 meeting signed ints; datetime64[Y|M] meeting [W]; time columns converted to object (NaT->None, ns->int); '
             'Boolean-target assignment / fillna retyping a whole 2-D block; iterable constructors leaving bool+number, bytes+number, big-int and timedelta mixes '
             'to NumPy discovery; dtype_kind_to_na returning the datetime NaT for timedelta. Not covered: time values whose count overflows int64 in the finer '
             'unit (NumPy raises OverflowError or crashes), str+bytes (excluded by the property, also where bytes cells meet str labels of a hierarchy), structured dtypes, '
             'longdouble values, non-ASCII strings, constructors called with an explicit dtype= (a cast the caller asked for: from_element_items, astype), '
             'Frame.pivot (aggregation), from_pandas, clip, arithmetic/binary operators, IndexDate-family typed indices. Only against S (no M): from_overlay over a union '
             'index, fillna(Frame), from_concat over a union of columns, pivot_stack, IndexHierarchy union / GO append (set semantics or composite paths).'),
    'technique': 'refinement of regenerated kernel + value-domain inclusion proof + differential correspondence',
}
PROPERTY_FILES = ['Properties/C07.v']
REFUTED_FILES = ['Refuted/C07.v']
MODEL_FILES = ['SF/Coerce.v', 'SF/CoerceDyn.v', 'Gen/Gen_util.v', 'Gen/Gen_c07.v']
TRANSLATED = ['resolve_dtype', 'dtype_kind_to_na', 'dtype_to_fill_value']
IMPORTS = 'Require Import SF.Prelude SF.PySlice SF.Dtype SF.PyDyn Gen.Gen_util SF.Coerce.'
RULE = ('api strata: (host column from a 43-entry dtype grid: bool, 8 int, 3 float, 2 complex, 2 str widths, 2 bytes widths, 9 datetime64 and 7 timedelta64 units with and '
        'without NaT, object) x (one element from a 57-element grid incl. NaN None NaT 2**53+1 2**63 2**64 long strings tuples NumPy scalars date/datetime/timedelta) '
        'or x (another column of the grid), through 11 Series/Index element operations, 10 Series array operations, 11 Frame element operations and 14 Frame array '
        'operations, the Frame ones under EVERY block layout (zoo.layouts_for); FrameGO grown by 4 methods over ordered pairs/triples of the host grid (same-class different width/unit pairs in both orders always included); iterable constructors on all pairs and a lattice of triples of a 37-element grid. '
        'quick tier: a seeded sample of each space plus one fixed witness per known finding; thorough tier: the complete product for every Series/Index operation, the Frame strata on a 21-dtype grid (x 16 elements for the Frame element operations) under every layout (every other layout for the block-insensitive operations). '
        'kernel strata: util.resolve_dtype on all 47x47 ordered dtype pairs against the regenerated Gallina function and the typed model, np.result_type against the '
        'oracle (562 pairs), dtype_from_element, dtype_to_fill_value, dtype_kind_to_na, random dtype lists through resolve_dtype_iter/concat_resolved, random element '
        'lists through prepare_iter_for_array. An operation that raises stores nothing (counted, trivial). A case is non-trivial when two different dtypes really meet; '
        'distinct = distinct (operation, dtypes/values, element, layout).')
ASSUMPTIONS = ['np.result_type = SF.Dtype.np_result_type on the pairs resolve_dtype passes to it (exhaustive sweep each run)',
               'NumPy stores a value into an array of dtype d without change iff SF.Coerce.holds d v (validated by the correspondence: a cell M predicts to survive is observed equal)',
               'np.array(sequence) dtype discovery = SF.Coerce.np_discover on bool/int/float/complex/str/bytes/None elements']
TRUSTED = ['SF.Coerce.np_promote / np_discover / str_width: hand oracle of NumPy dtype discovery for np.array(sequence)']
EXHAUSTIVE = {'quick': False, 'thorough': True}

warnings.simplefilter('ignore')

# ------------------------------------------------------------------------------------------- regenerated from the source on every run
# The hand-written models in SF/Coerce.v transcribe these util.py functions; if the text of one of them changes the
# transcription is no longer known to describe the code: the extractor fails closed (the run then searches for a failing input).
MODELLED_SHAPES = {
    'dtype_from_element': '45a42f5e54320753',      # SF.Coerce.elem_dtype
    'resolve_dtype_iter': 'b6362cb4cdb4ddb0',      # SF.Coerce.resolve_iter_loop
    'concat_resolved': '88c6cc36732e78cb',         # SF.Coerce.concat_loop
    'full_for_fill': '7736b40dd67819fd',           # plan PFill / PElem
    'prepare_iter_for_array': '09be8e44b62ae62d',  # SF.Coerce.iter_step
}
_FLAGS = ('has_tuple', 'has_enum', 'has_str', 'has_non_str', 'has_inexact', 'has_big_int')


def _shape(fn):
    import ast
    import hashlib
    body = fn.body
    if body and isinstance(body[0], ast.Expr) and isinstance(getattr(body[0], 'value', None), ast.Constant) and isinstance(body[0].value.value, str):
        body = body[1:]
    return hashlib.sha1('\n'.join(ast.dump(b) for b in body).encode()).hexdigest()[:16]


def _bool_expr(node):
    import ast
    if isinstance(node, ast.Name) and node.id in _FLAGS:
        return node.id
    if isinstance(node, ast.BoolOp):
        op = ' || ' if isinstance(node.op, ast.Or) else ' && '
        return '(' + op.join(_bool_expr(v) for v in node.values) + ')'
    if isinstance(node, ast.UnaryOp) and isinstance(node.op, ast.Not):
        return f'(negb {_bool_expr(node.operand)})'
    raise ValueError(f'unexpected node in the object condition: {ast.dump(node)[:80]}')


def generate(repo):
    '''Gen/Gen_c07.v: the big-int threshold and the `resolved = object` decision of util.prepare_iter_for_array, read from the AST.'''
    import ast
    import os
    with open(os.path.join(repo, 'static_frame/core/util.py')) as f:
        tree = ast.parse(f.read())
    funcs = {n.name: n for n in tree.body if isinstance(n, ast.FunctionDef)}
    consts = {n.targets[0].id: n.value for n in tree.body if isinstance(n, ast.Assign) and len(n.targets) == 1 and isinstance(n.targets[0], ast.Name)}
    for name, want in MODELLED_SHAPES.items():
        if name not in funcs:
            raise ValueError(f'util.{name} not found')
        got = _shape(funcs[name])
        if got != want:
            raise ValueError(f'util.{name} changed (shape {got}, the model transcribes {want})')
    c = consts.get('INT_MAX_COERCIBLE_TO_FLOAT')
    if not (isinstance(c, ast.Constant) and isinstance(c.value, int) and not isinstance(c.value, bool)):
        raise ValueError('INT_MAX_COERCIBLE_TO_FLOAT is not an int literal')
    # the statement  `if <t1>: resolved = object  elif <t2>: resolved = object`  inside the loop
    found = []
    for node in ast.walk(funcs['prepare_iter_for_array']):
        if isinstance(node, ast.If) and len(node.body) == 1 and isinstance(node.body[0], ast.Assign):
            a = node.body[0]
            if (len(a.targets) == 1 and isinstance(a.targets[0], ast.Name) and a.targets[0].id == 'resolved'
                    and isinstance(a.value, ast.Name) and a.value.id == 'object'):
                found.append(node)
    if len(found) != 2 or found[0].orelse != [found[1]] or found[1].orelse:
        raise ValueError('prepare_iter_for_array: the `resolved = object` decision no longer has the shape if/elif')
    cond = f'{_bool_expr(found[0].test)} || {_bool_expr(found[1].test)}'
    # TypeBlocks.append: how the cached row dtype is updated when a block is appended (model: SF.Coerce.grown_step)
    with open(os.path.join(repo, 'static_frame/core/type_blocks.py')) as f:
        tb_tree = ast.parse(f.read())
    append = None
    for node in tb_tree.body:
        if isinstance(node, ast.ClassDef) and node.name == 'TypeBlocks':
            for sub in node.body:
                if isinstance(sub, ast.FunctionDef) and sub.name == 'append':
                    append = sub
    if append is None:
        raise ValueError('TypeBlocks.append not found')
    last = append.body[-1]
    want_first = "UnaryOp(op=Not(), operand=Attribute(value=Name(id='self', ctx=Load()), attr='_row_dtype', ctx=Load()))"
    want_cmp = ("Compare(left=Attribute(value=Name(id='block', ctx=Load()), attr='dtype', ctx=Load()), ops=[NotEq()], "
                "comparators=[Attribute(value=Name(id='self', ctx=Load()), attr='_row_dtype', ctx=Load())])")
    want_set = "Assign(targets=[Attribute(value=Name(id='self', ctx=Load()), attr='_row_dtype', ctx=Store())], value=Name(id='DTYPE_OBJECT', ctx=Load())"
    ok = (isinstance(last, ast.If) and ast.dump(last.test) == want_first and len(last.orelse) == 1 and isinstance(last.orelse[0], ast.If)
          and ast.dump(last.orelse[0].test) == want_cmp and len(last.orelse[0].body) == 1 and ast.dump(last.orelse[0].body[0]).startswith(want_set)
          and not last.orelse[0].orelse)
    if not ok:
        raise ValueError('TypeBlocks.append: the update of _row_dtype no longer has the shape `elif block.dtype != self._row_dtype: self._row_dtype = DTYPE_OBJECT`')
    text = ('(* GENERATED by tools/sfv/props/c07.py generate() from /repo/static_frame/core/util.py -- do not edit; regenerated on every run. *)\n'
            'Require Import SF.Prelude SF.Dtype.\n\n'
            f'Definition GEN_INT_MAX_COERCIBLE_TO_FLOAT : Z := {lit.z(c.value)}.\n\n'
            '(* util.prepare_iter_for_array: when `resolved = object` is assigned *)\n'
            f'Definition gen_iter_object_cond ({" ".join(_FLAGS)} : bool) : bool :=\n  {cond}.\n\n'
            '(* type_blocks.py TypeBlocks.append: `elif block.dtype != self._row_dtype: self._row_dtype = DTYPE_OBJECT` *)\n'
            'Definition gen_grown_step (row_dtype block_dtype : dtype) : dtype :=\n'
            '  if negb (dtype_eqb block_dtype row_dtype) then DObj else row_dtype.\n')
    return {'Gen/Gen_c07.v': text}


# ------------------------------------------------------------------------------------------- literals
_UNITS = {'generic': 'UGen', 'Y': 'UY', 'M': 'UM', 'W': 'UW', 'D': 'UD', 'h': 'Uh', 'm': 'Um', 's': 'Us', 'ms': 'Ums', 'us': 'Uus', 'ns': 'Uns'}
_EPOCH_D = datetime.date(1970, 1, 1)
_EPOCH_DT = datetime.datetime(1970, 1, 1)


def fl(x):
    x = float(x)
    if x != x:
        return 'FNaN'
    if math.isinf(x):
        return f'(FInf {lit.b(x < 0)})'
    n, d = x.as_integer_ratio()
    if n == 0:
        return '(FFin 0 0)'
    e = -(d.bit_length() - 1)
    while n % 2 == 0:
        n //= 2
        e += 1
    return f'(FFin {lit.z(n)} {lit.z(e)})'


def dt(d):
    d = np.dtype(d)
    if d.kind in 'Mm' and np.datetime_data(d)[0] == 'generic':
        return f'({"DDt" if d.kind == "M" else "DTd"} UGen)'
    if d.kind == 'f' and d.itemsize > 8 or d.kind == 'c' and d.itemsize > 16:
        return f'({"DFlt" if d.kind == "f" else "DCplx"} {d.itemsize})'
    return lit.dtype(d)


def cv(x):
    '''Python / NumPy scalar -> SF.Coerce.cv literal (exact).'''
    if x is None:
        return 'XNone'
    if isinstance(x, (bool, np.bool_)):
        return f'(XBool {lit.b(x)})'
    if isinstance(x, np.datetime64):
        if np.isnat(x):
            return '(XNaT false)'
        return f'(XDt {_UNITS[np.datetime_data(x.dtype)[0]]} {lit.z(x.astype("int64"))})'
    if isinstance(x, np.timedelta64):
        if np.isnat(x):
            return '(XNaT true)'
        return f'(XTd {_UNITS[np.datetime_data(x.dtype)[0]]} {lit.z(x.astype("int64"))})'
    if isinstance(x, datetime.datetime):
        delta = x - _EPOCH_DT
        return f'(XDt Uus {lit.z((delta.days * 86400 + delta.seconds) * 10**6 + delta.microseconds)})'
    if isinstance(x, datetime.date):
        return f'(XDt UD {lit.z((x - _EPOCH_D).days)})'
    if isinstance(x, datetime.timedelta):
        return f'(XTd Uus {lit.z((x.days * 86400 + x.seconds) * 10**6 + x.microseconds)})'
    if isinstance(x, (int, np.integer)):
        return f'(XInt {lit.z(int(x))})'
    if isinstance(x, (np.longdouble, np.clongdouble)):
        raise ValueError('longdouble values are outside the model')
    if isinstance(x, (float, np.floating)):
        return f'(XFlt {fl(x)})'
    if isinstance(x, (complex, np.complexfloating)):
        return f'(XCplx {fl(x.real)} {fl(x.imag)})'
    if isinstance(x, (str, np.str_)):
        return f'(XStr {lit.s(str(x))})'
    if isinstance(x, (bytes, np.bytes_)):
        return f'(XBytes {lit.s(bytes(x).decode("ascii"))})'
    if isinstance(x, (tuple, list)):
        return '(XTup ' + lit.lst([cv(y) for y in x]) + ')'
    raise ValueError(f'no cv literal for {type(x).__name__} {x!r}')


def elem(x):
    if isinstance(x, np.generic):
        return f'(ENp {dt(x.dtype)} {cv(x)})'
    return f'(EPy {cv(x)})'


def cells_of(a):
    return [a[i] for i in range(len(a))]


def from_arr(a, idx=None):
    d = dt(a.dtype)
    return [f'(FromArr {d} {cv(a[i])})' for i in (range(len(a)) if idx is None else idx)]


def from_elem(x, n=1):
    return [f'(FromElem {elem(x)})'] * n


def rp(x):
    r = repr(x)
    return r if len(r) < 80 else r[:77] + '...'


# ------------------------------------------------------------------------------------------- the grid
HOSTS = {
    'bool': [True, False, True],
    'int8': [-128, 127, 0], 'int16': [-2**15, 2**15 - 1, 1], 'int32': [-2**31, 2**31 - 1, 1], 'int64': [-2**63, 2**63 - 1, 2**53 + 1],
    'uint8': [0, 255, 1], 'uint16': [0, 2**16 - 1, 1], 'uint32': [0, 2**32 - 1, 1], 'uint64': [0, 2**64 - 1, 2**53 + 1],
    'float16': [1.5, 2048.0, float('nan')], 'float32': [1.5, 16777216.0, float('nan')], 'float64': [0.1, 2.0**60, float('nan')],
    'complex64': [1 + 2j, 1.5, complex('nan')], 'complex128': [1 + 2j, 2.0**60, complex('nan')],
    '<U1': ['a', 'b', 'c'], '<U4': ['abcd', 'b', ''],
    'S1': [b'a', b'b', b'c'], 'S4': [b'abcd', b'b', b''],
    'M8[Y]': ['2020', '2100', 'NaT'], 'M8[M]': ['2020-03', '2100-05', 'NaT'], 'M8[W]': ['2020-01-02', '2100-05-06', 'NaT'],
    'M8[D]': ['2020-01-01', '2100-05-01', 'NaT'], 'M8[h]': ['2020-01-01T05', '2100-05-01T00', 'NaT'],
    'M8[s]': ['2020-01-01T00:00:01', '2100-05-01', 'NaT'], 'M8[ms]': ['2020-01-01T00:00:00.001', '2100-05-01', 'NaT'],
    'M8[us]': ['2020-01-01T00:00:00.000001', '2100-05-01', 'NaT'], 'M8[ns]': ['2020-01-01T00:00:00.000000001', '2200-01-01', 'NaT'],
    'm8[Y]': [1, 1000, 'NaT'], 'm8[M]': [1, 13, 'NaT'], 'm8[W]': [1, 100, 'NaT'], 'm8[D]': [1, 10**4, 'NaT'], 'm8[s]': [1, 10**9, 'NaT'],
    'm8[us]': [1, 10**15, 'NaT'], 'm8[ns]': [1, 2**62, 'NaT'],
    'object': [None, 'xyz', 2**70],
}
# the same time dtypes without a missing value (a time column without NaT / ns survives the conversion to object)
for _k in ('M8[Y]', 'M8[D]', 'M8[s]', 'M8[us]', 'M8[ns]', 'm8[D]', 'm8[us]', 'm8[ns]'):
    HOSTS[_k + '/full'] = [HOSTS[_k][0], HOSTS[_k][1], HOSTS[_k][0]]
# hosts without a missing value (for Index labels, which must be unique and hashable-stable)
NA_FREE = {k: v for k, v in HOSTS.items()}


def host(d, n=3):
    a = np.array(HOSTS[d][:n], dtype=d.split('/')[0])
    a.flags.writeable = False
    return a


FILLS = [True, False, 0, 1, -1, 255, 256, 2**31, 2**53, 2**53 + 1, 2**63 - 1, 2**63, 2**64 - 1, 2**64, -2**63, -2**63 - 1, 2**70,
         1.5, 0.1, float('nan'), np.nan, float('inf'), 2.0**60, 1 + 2j, complex('nan'),
         'a', 'abcdefgh', '', b'a', b'abcdefgh', None,
         np.datetime64('NaT'), np.datetime64('2020-01-01'), np.datetime64('2100', 'Y'), np.datetime64('2020-03', 'M'), np.datetime64('2020-01-02', 'W'),
         np.datetime64(1, 'ns'), np.timedelta64(5, 'D'), np.timedelta64(5, 'Y'), np.timedelta64(5, 'M'), np.timedelta64(7, 'ns'), np.timedelta64('NaT'),
         (1, 'a'), np.int8(3), np.int16(-300), np.uint8(200), np.uint64(2**64 - 1), np.int64(2**53 + 1), np.float32(1.5), np.float16(1.5),
         np.float64(0.1), np.complex64(1 + 2j), np.str_('abcdef'), np.bytes_(b'xyz'), np.bool_(False),
         datetime.date(2020, 1, 1), datetime.datetime(2020, 1, 1, 12, 30), datetime.timedelta(days=2)]


# the Frame strata (multiplied by every block layout) use this grid: thorough = the complete product, quick = a seeded sample of it
HOSTS_FRAME = ['bool', 'int8', 'int64', 'uint8', 'uint64', 'float16', 'float64', 'complex128', '<U1', '<U4', 'S4', 'M8[Y]', 'M8[W]', 'M8[D]', 'M8[ns]',
               'M8[ns]/full', 'm8[Y]', 'm8[M]', 'm8[D]', 'm8[ns]/full', 'object']
FILLS_FRAME = [True, 0, 2**53 + 1, 2**64, 1.5, float('nan'), 1 + 2j, 'abcdefgh', b'abcdefgh', None, np.datetime64('NaT'),
               np.datetime64('2020-01-02', 'W'), np.datetime64(1, 'ns'), np.timedelta64(5, 'D'), (1, 'a'), np.float32(1.5)]


def kind_of_elem(x):
    '''dtype kind class of an element as util.dtype_from_element sees it.'''
    if isinstance(x, np.generic):
        return x.dtype.kind
    if isinstance(x, bool):
        return 'b'
    if isinstance(x, int):
        return 'i' if -2**63 <= x < 2**63 else ('u' if 0 <= x < 2**64 else 'O')
    if isinstance(x, float):
        return 'f'
    if isinstance(x, complex):
        return 'c'
    if isinstance(x, str):
        return 'U'
    if isinstance(x, bytes):
        return 'S'
    return 'O'


def excluded_pair(k1, k2):
    '''str meets bytes: outside the claim.'''
    return {k1, k2} == {'U', 'S'}


def isna(x):
    if x is None:
        return True
    if isinstance(x, (float, np.floating, complex, np.complexfloating)):
        return x != x
    if isinstance(x, (np.datetime64, np.timedelta64)):
        return bool(np.isnat(x))
    return False


# ---- finding classes, decided from the INPUT only ------------------------------------------------
def _is_big_int_dtype(d):
    return d.kind in 'iu' and d.itemsize == 8


def _small_inexact(d):
    return (d.kind == 'f' and d.itemsize <= 8) or (d.kind == 'c' and d.itemsize <= 16)


def lossy_pair_py(d1, d2):
    d1, d2 = np.dtype(d1), np.dtype(d2)
    if (_is_big_int_dtype(d1) and _small_inexact(d2)) or (_is_big_int_dtype(d2) and _small_inexact(d1)):
        return 'C07-int64-float'
    if (d1 == np.uint64 and d2.kind == 'i') or (d2 == np.uint64 and d1.kind == 'i'):
        return 'C07-int64-float'
    if d1.kind == 'M' and d2.kind == 'M':
        u1, u2 = np.datetime_data(d1)[0], np.datetime_data(d2)[0]
        if (u1 in 'YM' and u2 == 'W') or (u2 in 'YM' and u1 == 'W'):
            return 'C07-datetime-week'
    return None


def pair_is_object_py(d1, d2):
    '''Two different dtypes whose common dtype is object (re-derived from the property text for tagging only).'''
    d1, d2 = np.dtype(d1), np.dtype(d2)
    if d1 == d2:
        return d1.kind == 'O'
    k1, k2 = d1.kind, d2.kind
    if 'O' in (k1, k2):
        return True
    if k1 in 'US' and k2 in 'US':
        return False
    if k1 == 'M' and k2 == 'M':
        return False
    if k1 == 'm' and k2 == 'm':
        u1, u2 = np.datetime_data(d1)[0], np.datetime_data(d2)[0]
        cal = lambda u: u in ('Y', 'M')
        lin = lambda u: u not in ('Y', 'M', 'generic')
        return (cal(u1) and lin(u2)) or (cal(u2) and lin(u1))
    return any(k in 'USbMm' for k in (k1, k2))


def elem_np_dtype(x):
    '''util.dtype_from_element, re-derived for tagging only.'''
    if isinstance(x, np.generic):
        return x.dtype
    if x is None or isinstance(x, (tuple, list, datetime.date, datetime.timedelta)):
        return np.dtype(object)
    return np.array(x).dtype


class Src:
    '''Something that takes part in a merge: an array (dtype + its cells) or one element.'''
    def __init__(self, x, is_elem=False):
        if is_elem:
            self.dtype, self.values, self.is_arr = elem_np_dtype(x), [x], False
        else:
            self.dtype, self.values, self.is_arr = x.dtype, cells_of(x), True


def E(x):
    return Src(x, True)


def A(a):
    return Src(a)


def _int_victim(z):
    if isinstance(z, (bool, np.bool_)) or not isinstance(z, (int, np.integer)):
        return False
    z = int(z)
    return abs(z) > 2**53 and int(float(z)) != z


def _week_victim(v):
    if not isinstance(v, np.datetime64) or np.isnat(v) or np.datetime_data(v.dtype)[0] not in ('Y', 'M'):
        return False
    return int(v.astype('M8[D]').astype('int64')) % 7 != 0


_TIME_OBJECT_UNITS = {'M': ('ns',), 'm': ('ns', 'Y', 'M')}


def findings_of(sources):
    '''Finding classes the INPUT is in: the dtypes that meet and the presence of a value the class loses.'''
    tags = set()
    srcs = list(sources)
    goes_object = any(pair_is_object_py(a.dtype, b.dtype) for a, b in itertools.combinations(srcs, 2))
    for a, b in itertools.permutations(srcs, 2):
        f = lossy_pair_py(a.dtype, b.dtype)
        if f == 'C07-int64-float' and any(_int_victim(z) for z in a.values + b.values):
            tags.add(f)
        if f == 'C07-datetime-week' and any(_week_victim(z) for z in a.values + b.values):
            tags.add(f)
    if goes_object:
        for a in srcs:
            if a.is_arr and a.dtype.kind in 'Mm':
                unit = np.datetime_data(a.dtype)[0]
                if unit in _TIME_OBJECT_UNITS[a.dtype.kind] and any(not np.isnat(z) for z in a.values):
                    tags.add('C07-time-to-object')
                if any(np.isnat(z) for z in a.values):
                    tags.add('C07-time-to-object')
    return tags


# ------------------------------------------------------------------------------------------- column results
class Col:
    '''One observed result column: the plan that decides its dtype, the supplied cells with their sources, the observed array;
    keep=True marks a column the operation does not address (dtype must be kept exactly).'''
    __slots__ = ('plan', 'cells', 'obs', 'keep')

    def __init__(self, plan, cells, obs, keep=None):
        self.plan, self.cells, self.obs, self.keep = plan, cells, obs, keep

    def m(self):
        if self.plan is None:      # a composite path that M does not model: only the specification is evaluated
            return 'true'
        return f'M_check {self.plan} {lit.lst(self.cells)} {dt(self.obs.dtype)} {lit.lst([cv(x) for x in cells_of(self.obs)])}'

    def s(self):
        t = f'S_cells {lit.lst(self.cells)} {lit.lst([cv(x) for x in cells_of(self.obs)])}'
        if self.keep is not None:
            t = f'({t}) && dtype_eqb {dt(self.keep)} {dt(self.obs.dtype)}'
        return t


class Raw:
    '''An extra pair of Coq bool terms (model, specification) that is not a column.'''
    def __init__(self, m, s):
        self._m, self._s = m, s
        self.obs = None

    def m(self):
        return self._m

    def s(self):
        return self._s


def bloc_terms(layout, srcs, hit_cols, fv, observed):
    '''Block-level model (SF.Coerce.M_bloc) and per-column specification (S_bloc) of the result dtypes.'''
    blocks, pos = [], 0
    for w, _ in layout:
        blocks.append(f'({dt(srcs[pos].dtype)}, {w}%nat)')
        pos += w
    hits = lit.lst([lit.b(j in hit_cols) for j in range(len(srcs))])
    obs = lit.lst([dt(a.dtype) for a in observed])
    vd = f'(elem_dtype {elem(fv)})'
    return Raw(f'list_eqb dtype_eqb (M_bloc {lit.lst(blocks)} {hits} {vd}) {obs}',
               f'list_eqb dtype_eqb (S_bloc (expand_blocks {lit.lst(blocks)}) {hits} {vd}) {obs}')


def conj(terms):
    return ' && '.join(f'({t})' for t in terms) if terms else 'true'


def p_keep(d):
    return f'(PKeep {dt(d)})'


def p_fill(d, x, flipped=False):
    return f'({"PFillR" if flipped else "PFill"} {dt(d)} {elem(x)})'


def p_elem(x):
    return f'(PElem {elem(x)})'


def p_pair(d1, d2):
    return f'(PPair {dt(d1)} {dt(d2)})'


def p_concat(ds):
    return f'(PConcat {dt(ds[0])} {lit.lst([dt(d) for d in ds[1:]])})'


def p_iterdt(ds):
    return f'(PIterDt {dt(ds[0])} {lit.lst([dt(d) for d in ds[1:]])})'


def p_iter(xs):
    return f'(PIter {lit.lst([elem(x) for x in xs])})'


def keep_col(a, obs):
    return Col(p_keep(a.dtype), from_arr(a), obs, keep=a.dtype)


_COMPANIONS = {}


def mk_case(ctx, kind, op, desc, cols, sources, tags=None, nontrivial=True):
    '''cols: list of Col or an exception (the operation raised: nothing is stored, nothing to compare).'''
    t = {'op': op}
    t.update(tags or {})
    fs = sorted(findings_of(sources))
    # one finding id per case (scalar tag); a case in two classes is tagged with the first and both are exercised separately by the grid
    if fs and 'finding' not in t:
        t['finding'] = fs[0]
    if isinstance(cols, BaseException):
        ctx.count(f'{kind}:raised:{lit.err_class(cols)}')
        d = dict(desc, op=op, raised=f'{type(cols).__name__}: {str(cols)[:80]}')
        return Case(kind, d, m='true', s='true', tags=t, nontrivial=False)
    try:
        m = conj([c.m() for c in cols])
        s = conj([c.s() for c in cols])
    except ValueError as e:   # a value outside the literal model (non-ascii, longdouble ...)
        ctx.count(f'{kind}:unprintable')
        return None
    d = dict(desc, op=op, observed=[{'dtype': str(c.obs.dtype), 'values': rp(c.obs.tolist() if c.obs.dtype.kind not in 'Mm' else [str(x) for x in c.obs])}
                                    for c in cols if c.obs is not None])
    ctx.count(kind)
    case = Case(kind, d, m=m, s=s, tags=t, nontrivial=nontrivial)
    if 'finding' in t and 'outcome' not in t:
        # OUTCOME discriminator: the finding tag may excuse only the recorded kind of outcome.  The implementation model M transcribes every
        # recorded defect (result dtype + exactly which cells are lost + every other cell unchanged), so a companion case WITHOUT the
        # finding tag demands, as its specification, that the observation equals M: another dtype, a wrong value in a cell the defect
        # does not touch, a wrong shape fail the companion and are reported, whatever the tag says.
        t2 = {k: v for k, v in t.items() if k != 'finding'}
        t2['outcome_of'] = t['finding']
        companion = Case(kind + ':outcome', dict(d, companion='the observed result must be exactly the recorded outcome (model M) of ' + t['finding']),
                         m=None, s=m, tags=t2, nontrivial=False)
        companion.key = case.key + ':outcome'
        _COMPANIONS[id(case)] = companion
    return case


# ------------------------------------------------------------------------------------------- Series / Index: element meets column
def _sf():
    import static_frame as sf
    return sf


def op_s_reindex(a, fv):
    sf = _sf()
    r = sf.Series(a, index=range(len(a))).reindex(range(1, len(a) + 1), fill_value=fv)
    return [Col(p_fill(a.dtype, fv), from_arr(a, range(1, len(a))) + from_elem(fv), r.values)]


def op_s_reindex_subset(a, fv):
    sf = _sf()
    r = sf.Series(a, index=range(len(a))).reindex([2, 0], fill_value=fv)
    return [Col(p_keep(a.dtype), from_arr(a, [2, 0]), r.values, keep=a.dtype)]


def op_s_shift(a, fv):
    sf = _sf()
    r = sf.Series(a).shift(1, fill_value=fv)
    return [Col(p_fill(a.dtype, fv), from_elem(fv) + from_arr(a, range(len(a) - 1)), r.values)]


def op_s_shift_neg(a, fv):
    sf = _sf()
    r = sf.Series(a).shift(-2, fill_value=fv)
    return [Col(p_fill(a.dtype, fv), from_arr(a, range(2, len(a))) + from_elem(fv, 2), r.values)]


def op_s_assign_iloc(a, fv):
    sf = _sf()
    r = sf.Series(a).assign.iloc[1](fv)
    return [Col(p_fill(a.dtype, fv), from_arr(a, [0]) + from_elem(fv) + from_arr(a, range(2, len(a))), r.values)]


def op_s_assign_loc_list(a, fv):
    sf = _sf()
    r = sf.Series(a, index=list('xyz')[:len(a)]).assign.loc[['x', 'z']](fv)
    return [Col(p_fill(a.dtype, fv), from_elem(fv) + from_arr(a, [1]) + from_elem(fv), r.values)]


def _fillna_cells(a, fv, which):
    out = []
    for i in range(len(a)):
        out += from_elem(fv) if which(i) else from_arr(a, [i])
    return out


def op_s_fillna(a, fv):
    sf = _sf()
    r = sf.Series(a).fillna(fv)
    na = [isna(x) for x in cells_of(a)]
    if not any(na):
        return [keep_col(a, r.values)]
    return [Col(p_fill(a.dtype, fv, True), _fillna_cells(a, fv, lambda i: na[i]), r.values)]


def op_s_fillna_trailing(a, fv):
    sf = _sf()
    r = sf.Series(a).fillna_trailing(fv)
    na = [isna(x) for x in cells_of(a)]
    if not na[-1]:
        return [keep_col(a, r.values)]
    k = len(a)
    while k > 0 and na[k - 1]:
        k -= 1
    return [Col(p_fill(a.dtype, fv, True), _fillna_cells(a, fv, lambda i: i >= k), r.values)]


def op_s_fillna_leading(a, fv):
    sf = _sf()
    a = a[::-1]
    r = sf.Series(a).fillna_leading(fv)
    na = [isna(x) for x in cells_of(a)]
    if not na[0]:
        return [keep_col(a, r.values)]
    k = 0
    while k < len(a) and na[k]:
        k += 1
    return [Col(p_fill(a.dtype, fv, True), _fillna_cells(a, fv, lambda i: i < k), r.values)]


def op_idx_fillna(a, fv):
    sf = _sf()
    r = sf.Index(a).fillna(fv)
    na = [isna(x) for x in cells_of(a)]
    if not any(na):
        return [keep_col(a, r.values)]
    return [Col(p_fill(a.dtype, fv, True), _fillna_cells(a, fv, lambda i: na[i]), r.values)]


def _indexgo_years_tag(a, xs, observed):
    '''finding C07-indexgo-timedelta-years: timedelta64[Y] labels (kept as Python ints by IndexGO) grow by a timedelta64[M] label.
    The tag is set only when the OBSERVED result is the recorded wrong result: dtype timedelta64[M], the year counts re-read as months,
    the appended labels unchanged.'''
    if a.dtype == np.dtype('m8[Y]') and any(isinstance(x, np.timedelta64) and np.datetime_data(x.dtype)[0] == 'M' for x in xs):
        n = len(observed) - len(xs)
        try:
            wrong = np.concatenate([a[:n].astype('int64').astype('m8[M]'), np.array([np.timedelta64(x, 'M') for x in xs], dtype='m8[M]')])
            same = observed.dtype == np.dtype('m8[M]') and len(observed) == len(wrong) and all(
                (np.isnat(o) and np.isnat(w)) or o == w for o, w in zip(observed, wrong))
        except Exception:  # noqa
            same = False
        if same:
            return {'finding': 'C07-indexgo-timedelta-years', 'outcome': 'years-reread-as-months'}
    return {}


def op_idxgo_append(a, fv):
    sf = _sf()
    g = sf.IndexGO(a[:2])
    g.append(fv)
    return [Col(p_fill(a.dtype, fv, True), from_arr(a, [0, 1]) + from_elem(fv), g.values)], _indexgo_years_tag(a, [fv], g.values)


SERIES_ELEM_OPS = [op_s_reindex, op_s_shift, op_s_shift_neg, op_s_assign_iloc, op_s_assign_loc_list, op_s_fillna, op_s_fillna_trailing,
                   op_s_fillna_leading, op_idx_fillna, op_idxgo_append, op_s_reindex_subset]


# operations whose interface takes a tuple as ONE element (elsewhere a tuple is a sequence of values)
TUPLE_OK = {'op_s_reindex', 'op_s_reindex_subset', 'op_s_shift', 'op_s_shift_neg', 'op_idxgo_append',
            'op_f_reindex_rows', 'op_f_reindex_cols', 'op_f_reindex_both'}


def elem_case(ctx, kind, op, hd, fv):
    a = host(hd)
    ke = kind_of_elem(fv)
    if excluded_pair(a.dtype.kind, ke):
        return None
    if isinstance(fv, tuple) and op.__name__ not in TUPLE_OK:
        return None
    desc = {'host_dtype': hd, 'host': rp(HOSTS[hd]), 'element': rp(fv), 'element_type': type(fv).__name__}
    tags = {}
    try:
        cols = op(a, fv)
        if isinstance(cols, tuple):
            cols, tags = cols
    except Exception as e:  # noqa
        cols = e
    ed = elem_np_dtype(fv)
    return mk_case(ctx, kind, op.__name__[3:], desc, cols, [A(a), E(fv)], tags=tags,
                   nontrivial=(np.dtype(ed) != a.dtype))


def series_elem_cases(ctx):
    pairs = [(hd, fv) for hd in HOSTS for fv in FILLS]
    for k, op in enumerate(SERIES_ELEM_OPS):
        if ctx.tier == 'thorough':
            sel = pairs
        else:
            sel = ctx.rng.sample(pairs, min(len(pairs), ctx.n(450 if k == 0 else 35, 0)))
        for hd, fv in sel:
            c = elem_case(ctx, 'api:series-elem', op, hd, fv)
            if c is not None:
                yield c



# ------------------------------------------------------------------------------------------- Series: array meets array
def _na_mask(a):
    return [isna(x) for x in cells_of(a)]


def op_s_concat(a, b):
    sf = _sf()
    r = sf.Series.from_concat((sf.Series(a), sf.Series(b)), index=sf.IndexAutoFactory)
    return [Col(p_concat([a.dtype, b.dtype]), from_arr(a) + from_arr(b), r.values)]


def op_s_concat3(a, b):
    sf = _sf()
    r = sf.Series.from_concat((sf.Series(a), sf.Series(b), sf.Series(a)), index=sf.IndexAutoFactory)
    return [Col(p_concat([a.dtype, b.dtype, a.dtype]), from_arr(a) + from_arr(b) + from_arr(a), r.values)]


def op_s_insert_after(a, b):
    sf = _sf()
    r = sf.Series(a).insert_after(0, sf.Series(b, index=list('xyz')[:len(b)]))
    return [Col(p_pair(a.dtype, b.dtype), from_arr(a, [0]) + from_arr(b) + from_arr(a, range(1, len(a))), r.values)]


def op_s_insert_before(a, b):
    sf = _sf()
    r = sf.Series(a).insert_before(2, sf.Series(b, index=list('xyz')[:len(b)]))
    return [Col(p_pair(a.dtype, b.dtype), from_arr(a, [0, 1]) + from_arr(b) + from_arr(a, range(2, len(a))), r.values)]


def op_s_assign_arr(a, b):
    sf = _sf()
    r = sf.Series(a).assign.iloc[[0, 2]](b[:2])
    return [Col(p_pair(a.dtype, b.dtype), from_arr(b, [0]) + from_arr(a, [1]) + from_arr(b, [1]), r.values)]


def op_s_assign_series(a, b):
    sf = _sf()
    r = sf.Series(a).assign.iloc[[0, 1]](sf.Series(b[:2]))
    return [Col(p_pair(a.dtype, b.dtype), from_arr(b, [0, 1]) + from_arr(a, range(2, len(a))), r.values)]


def _overlay_cells(a, b):
    na = _na_mask(a)
    out = []
    for i in range(len(a)):
        out += from_arr(b, [i]) if na[i] else from_arr(a, [i])
    return out


def op_s_fillna_series(a, b):
    sf = _sf()
    r = sf.Series(a).fillna(sf.Series(b))
    if not any(_na_mask(a)):
        return [keep_col(a, r.values)]
    return [Col(p_pair(b.dtype, a.dtype), _overlay_cells(a, b), r.values)]


def op_s_overlay(a, b):
    sf = _sf()
    r = sf.Series.from_overlay((sf.Series(a), sf.Series(b)))
    if not any(_na_mask(a)):
        return [keep_col(a, r.values)]
    return [Col(p_pair(b.dtype, a.dtype), _overlay_cells(a, b), r.values)]


def op_s_overlay_union(a, b):
    '''from_overlay over the union index: reindex with dtype_kind_to_na, then fillna(Series) (composite: S only).'''
    sf = _sf()
    r = sf.Series.from_overlay((sf.Series(a), sf.Series(b, index=(2, 3, 4))))
    na = _na_mask(a)
    cells = from_arr(a, [0, 1]) + (from_arr(b, [0]) if na[2] else from_arr(a, [2])) + from_arr(b, [1, 2])
    # the fill value is util.dtype_kind_to_na(kind): NaN for numbers, the DATETIME NaT for both time kinds, else None
    k = a.dtype.kind
    na = float('nan') if k in 'iufc' else (np.datetime64('NaT') if k in 'Mm' else None)
    tags = {'finding': 'C07-overlay-timedelta'} if k == 'm' else {}
    return [Col(None, cells, r.values)], tags, [A(a), A(b), E(na)]


def op_idxgo_extend(a, b):
    sf = _sf()
    g = sf.IndexGO(a[:2])
    g.extend(b[:2])
    # extend appends one label at a time: resolve_dtype(dtype_from_element(label), running dtype)
    xs = cells_of(b[:2])
    cols = [Col(f'(PSteps {dt(a.dtype)} {lit.lst([elem(x) for x in xs])})', from_arr(a, [0, 1]) + [f'(FromElem {elem(x)})' for x in xs], g.values)]
    return cols, _indexgo_years_tag(a, xs, g.values), [A(a[:2])] + [E(x) for x in xs]


SERIES_ARR_OPS = [op_s_concat, op_s_concat3, op_s_insert_after, op_s_insert_before, op_s_assign_arr, op_s_assign_series,
                  op_s_fillna_series, op_s_overlay, op_idxgo_extend, op_s_overlay_union]


STR_OUTER_OPS = ('xop_ih_values_at_depth', 'xop_ihgo_append', 'xop_ih_union', 'xop_f_pivot_stack')


def arr_case(ctx, kind, op, hd, od, **kw):
    a, b = host(hd), host(od)
    if excluded_pair(a.dtype.kind, b.dtype.kind):
        return None
    if op.__name__ in STR_OUTER_OPS and 'S' in (a.dtype.kind, b.dtype.kind):
        return None      # these routes put the values next to str labels: str meets bytes is outside the claim
    desc = {'host_dtype': hd, 'host': rp(HOSTS[hd]), 'other_dtype': od, 'other': rp(HOSTS[od])}
    desc.update({k: str(v) for k, v in kw.items()})
    try:
        cols = op(a, b, **kw)
    except Exception as e:  # noqa
        cols = e
    tags, sources = {}, [A(a), A(b)]
    if isinstance(cols, tuple):
        if len(cols) == 3:
            cols, tags, sources = cols
        else:
            cols, tags = cols
    return mk_case(ctx, kind, op.__name__[3:], desc, cols, sources, tags=tags, nontrivial=(a.dtype != b.dtype))


def series_arr_cases(ctx):
    pairs = [(hd, od) for hd in HOSTS for od in HOSTS]
    for k, op in enumerate(SERIES_ARR_OPS):
        sel = pairs if ctx.tier == 'thorough' else ctx.rng.sample(pairs, min(len(pairs), ctx.n(350 if k == 0 else 35, 0)))
        for hd, od in sel:
            c = arr_case(ctx, 'api:series-array', op, hd, od)
            if c is not None:
                yield c


# ------------------------------------------------------------------------------------------- Frame: every block layout
OTHER = np.array([10, 20, 30], dtype=np.int64)
OTHER.flags.writeable = False
COLS3 = ('c0', 'c1', 'c2')


def na_free(a):
    '''Same dtype, no missing value.'''
    na = _na_mask(a)
    if not any(na):
        return a
    good = next(x for x, m in zip(cells_of(a), na) if not m)
    b = a.copy()
    for i, m in enumerate(na):
        if m:
            b[i] = good
    b.flags.writeable = False
    return b


def frame3(a, layout):
    return zoo.frame_from_columns([a, na_free(a), OTHER], layout, columns=COLS3)


def layouts3(a):
    return list(zoo.layouts_for([a.dtype, a.dtype, OTHER.dtype]))


def block_of_columns(layout):
    out = []
    for bi, (w, _) in enumerate(layout):
        out += [bi] * w
    return out


def colvals(fr, label):
    return fr[label].values


def fop_reindex_rows(a, fv, layout):
    f = frame3(a, layout)
    r = f.reindex(index=[1, 2, 3], fill_value=fv)
    srcs = [a, na_free(a), OTHER]
    return [Col(p_fill(c.dtype, fv), from_arr(c, [1, 2]) + from_elem(fv), colvals(r, l)) for c, l in zip(srcs, COLS3)]


def fop_reindex_cols(a, fv, layout):
    f = frame3(a, layout)
    r = f.reindex(columns=['c0', 'z', 'c2'], fill_value=fv)
    return [keep_col(a, colvals(r, 'c0')), Col(p_elem(fv), from_elem(fv, 3), colvals(r, 'z')), keep_col(OTHER, colvals(r, 'c2'))]


def fop_reindex_both(a, fv, layout):
    f = frame3(a, layout)
    r = f.reindex(index=[2, 3], columns=['c1', 'z'], fill_value=fv)
    b = na_free(a)
    return [Col(p_fill(b.dtype, fv), from_arr(b, [2]) + from_elem(fv), colvals(r, 'c1')), Col(p_elem(fv), from_elem(fv, 2), colvals(r, 'z'))]


def fop_shift_rows(a, fv, layout):
    f = frame3(a, layout)
    r = f.shift(1, fill_value=fv)
    srcs = [a, na_free(a), OTHER]
    return [Col(p_fill(c.dtype, fv), from_elem(fv) + from_arr(c, [0, 1]), colvals(r, l)) for c, l in zip(srcs, COLS3)]


def fop_shift_cols(a, fv, layout):
    f = frame3(a, layout)
    r = f.shift(0, 1, fill_value=fv)
    return [Col(p_elem(fv), from_elem(fv, 3), colvals(r, 'c0')), keep_col(a, colvals(r, 'c1')), keep_col(na_free(a), colvals(r, 'c2'))]


def _block_plans(layout, srcs, hit_cols, plan_hit):
    '''0.8.8 retypes a whole block when one of its columns is hit.'''
    boc = block_of_columns(layout)
    hit_blocks = {boc[j] for j in hit_cols}
    return [plan_hit(srcs[j]) if boc[j] in hit_blocks else None for j in range(len(srcs))]


def _retype_tag(layout, srcs, hit_cols, fv_dtype):
    '''finding C07-block-retype: a block holds a hit column and a column that is not hit, and the element does not fit the block dtype.'''
    boc = block_of_columns(layout)
    hit_blocks = {boc[j] for j in hit_cols}
    for j in range(len(srcs)):
        if j not in hit_cols and boc[j] in hit_blocks and np.dtype(fv_dtype) != srcs[j].dtype:
            return {'finding': 'C07-block-retype'}
    return {}


def fop_fillna(a, fv, layout):
    f = frame3(a, layout)
    r = f.fillna(fv)
    srcs = [a, na_free(a), OTHER]
    hit = [j for j, c in enumerate(srcs) if any(_na_mask(c))]
    plans = _block_plans(layout, srcs, hit, lambda c: p_fill(c.dtype, fv, True))
    cols = []
    for j, (c, l) in enumerate(zip(srcs, COLS3)):
        na = _na_mask(c)
        if plans[j] is None:
            cols.append(keep_col(c, colvals(r, l)))
        else:
            cols.append(Col(plans[j], _fillna_cells(c, fv, lambda i: na[i]), colvals(r, l), keep=None if j in hit else c.dtype))
    cols.append(bloc_terms(layout, srcs, hit, fv, [colvals(r, l) for l in COLS3]))
    return cols, _retype_tag(layout, srcs, hit, elem_np_dtype(fv))


def fop_fillna_trailing(a, fv, layout):
    f = frame3(a, layout)
    r = f.fillna_trailing(fv)
    srcs = [a, na_free(a), OTHER]
    hit = [j for j, c in enumerate(srcs) if _na_mask(c)[-1]]
    plans = _block_plans(layout, srcs, hit, lambda c: p_fill(c.dtype, fv, True))
    cols = []
    for j, (c, l) in enumerate(zip(srcs, COLS3)):
        na = _na_mask(c)
        k = len(c)
        while k > 0 and na[k - 1]:
            k -= 1
        if plans[j] is None:
            cols.append(keep_col(c, colvals(r, l)))
        else:
            cols.append(Col(plans[j], _fillna_cells(c, fv, lambda i: i >= k), colvals(r, l), keep=None if j in hit else c.dtype))
    cols.append(bloc_terms(layout, srcs, hit, fv, [colvals(r, l) for l in COLS3]))
    return cols, _retype_tag(layout, srcs, hit, elem_np_dtype(fv))


def fop_assign_elem(a, fv, layout):
    f = frame3(a, layout)
    r = f.assign.iloc[1, 0](fv)
    return [Col(p_fill(a.dtype, fv, True), from_arr(a, [0]) + from_elem(fv) + from_arr(a, [2]), colvals(r, 'c0')),
            keep_col(na_free(a), colvals(r, 'c1')), keep_col(OTHER, colvals(r, 'c2'))]


def fop_assign_col_elem(a, fv, layout):
    f = frame3(a, layout)
    r = f.assign['c1'](fv)
    return [keep_col(a, colvals(r, 'c0')), Col(p_elem(fv), from_elem(fv, 3), colvals(r, 'c1')), keep_col(OTHER, colvals(r, 'c2'))]


def fop_assign_row_elem(a, fv, layout):
    f = frame3(a, layout)
    r = f.assign.iloc[2](fv)
    srcs = [a, na_free(a), OTHER]
    return [Col(p_fill(c.dtype, fv, True), from_arr(c, [0, 1]) + from_elem(fv), colvals(r, l)) for c, l in zip(srcs, COLS3)]


def fop_assign_bloc(a, fv, layout):
    sf = _sf()
    f = frame3(a, layout)
    mask = sf.Frame(np.array([[True, False, False], [False, False, False], [False, False, False]]), columns=COLS3)
    r = f.assign.bloc[mask](fv)
    srcs = [a, na_free(a), OTHER]
    plans = _block_plans(layout, srcs, [0], lambda c: p_fill(c.dtype, fv, True))
    cols = [Col(plans[0], from_elem(fv) + from_arr(a, [1, 2]), colvals(r, 'c0'))]
    for j in (1, 2):
        c = srcs[j]
        if plans[j] is None:
            cols.append(keep_col(c, colvals(r, COLS3[j])))
        else:
            cols.append(Col(plans[j], from_arr(c), colvals(r, COLS3[j]), keep=c.dtype))
    cols.append(bloc_terms(layout, srcs, [0], fv, [colvals(r, l) for l in COLS3]))
    return cols, _retype_tag(layout, srcs, [0], elem_np_dtype(fv))


FRAME_ELEM_OPS = [fop_reindex_rows, fop_reindex_cols, fop_reindex_both, fop_shift_rows, fop_shift_cols, fop_fillna, fop_fillna_trailing,
                  fop_assign_elem, fop_assign_col_elem, fop_assign_row_elem, fop_assign_bloc]
TUPLE_OK |= {'fop_reindex_rows', 'fop_reindex_cols', 'fop_reindex_both', 'fop_shift_rows'}
LAYOUT_SENSITIVE = (fop_fillna, fop_fillna_trailing, fop_assign_elem, fop_assign_bloc, fop_reindex_rows)


def frame_elem_case(ctx, op, hd, fv, layout):
    a = host(hd)
    if excluded_pair(a.dtype.kind, kind_of_elem(fv)) or excluded_pair(OTHER.dtype.kind, kind_of_elem(fv)):
        return None
    if isinstance(fv, tuple) and op.__name__ not in TUPLE_OK:
        return None
    if op is fop_assign_row_elem and isinstance(fv, (bytes, np.bytes_)):
        return None     # a bytes object assigned across columns is taken as a sequence of ints, not as one element
    desc = {'host_dtype': hd, 'columns': {'c0': rp(HOSTS[hd]), 'c1': 'c0 without missing values', 'c2': '[10, 20, 30] int64'},
            'element': rp(fv), 'element_type': type(fv).__name__, 'layout': zoo.layout_str(layout)}
    tags = {'layout': zoo.layout_str(layout)}
    try:
        cols = op(a, fv, layout)
        if isinstance(cols, tuple):
            cols, extra = cols
            tags.update(extra)
    except Exception as e:  # noqa
        cols = e
    return mk_case(ctx, 'api:frame-elem', op.__name__[4:], desc, cols, [A(a), A(OTHER), E(fv)], tags=tags,
                   nontrivial=(elem_np_dtype(fv) != a.dtype))


def frame_elem_cases(ctx):
    pairs = [(hd, fv) for hd in HOSTS_FRAME for fv in FILLS_FRAME]
    for op in FRAME_ELEM_OPS:
        sel = pairs if ctx.tier == 'thorough' else ctx.rng.sample(pairs, min(len(pairs), ctx.n(8, 0)))
        for hd, fv in sel:
            layouts = layouts3(host(hd))
            if op not in LAYOUT_SENSITIVE:
                layouts = layouts[::2]       # the block-insensitive operations: every other layout
            for layout in layouts:
                c = frame_elem_case(ctx, op, hd, fv, layout)
                if c is not None:
                    yield c


# ---- Frame: array meets array -----------------------------------------------------------------
def frame2(a, b, layout):
    return zoo.frame_from_columns([a, b], layout, columns=('c0', 'c1'))


def fop_row(a, b, layout):
    '''row consolidation: one dtype for the whole row (resolve_dtype_iter over the BLOCK dtypes).'''
    f = frame2(a, b, layout)
    ds = [a.dtype] if len(layout) == 1 else [a.dtype, b.dtype]
    cols = []
    for i in range(len(a)):
        cols.append(Col(p_iterdt(ds), from_arr(a, [i]) + from_arr(b, [i]), f.iloc[i].values))
    return cols


def fop_values(a, b, layout):
    f = frame2(a, b, layout)
    ds = [a.dtype] if len(layout) == 1 else [a.dtype, b.dtype]
    v = f.values
    return [Col(p_iterdt(ds), from_arr(a), v[:, 0]), Col(p_iterdt(ds), from_arr(b), v[:, 1])]


def fop_concat0(a, b, layout):
    sf = _sf()
    f1 = zoo.frame_from_columns([a, OTHER], layout, columns=('x', 'y'))
    f2 = zoo.frame_from_columns([b, OTHER], ((1, False), (1, False)), columns=('x', 'y'))
    r = sf.Frame.from_concat((f1, f2), index=sf.IndexAutoFactory)
    return [Col(p_concat([a.dtype, b.dtype]), from_arr(a) + from_arr(b), colvals(r, 'x')),
            Col(p_concat([OTHER.dtype, OTHER.dtype]), from_arr(OTHER) + from_arr(OTHER), colvals(r, 'y'), keep=OTHER.dtype)]


def fop_concat1_aligned(a, b, layout):
    sf = _sf()
    f1 = zoo.frame_from_columns([a, OTHER], layout, columns=('x', 'y'))
    f2 = sf.Frame.from_items((('z', b),))
    r = sf.Frame.from_concat((f1, f2), axis=1)
    return [keep_col(a, colvals(r, 'x')), keep_col(OTHER, colvals(r, 'y')), keep_col(b, colvals(r, 'z'))]


def fop_assign_col_arr(a, b, layout):
    f = zoo.frame_from_columns([a, OTHER], layout, columns=('x', 'y'))
    r = f.assign['x'](b)
    return [Col(p_keep(b.dtype), from_arr(b), colvals(r, 'x')), keep_col(OTHER, colvals(r, 'y'))]


def fop_assign_part_arr(a, b, layout):
    f = zoo.frame_from_columns([a, OTHER], layout, columns=('x', 'y'))
    r = f.assign.iloc[[0, 2], 0](b[:2])
    return [Col(p_pair(b.dtype, a.dtype), from_arr(b, [0]) + from_arr(a, [1]) + from_arr(b, [1]), colvals(r, 'x')),
            keep_col(OTHER, colvals(r, 'y'))]


def fop_insert_after(a, b, layout):
    sf = _sf()
    f = zoo.frame_from_columns([a, OTHER], layout, columns=('x', 'y'))
    r = f.insert_after('x', sf.Series(b, name='z'))
    return [keep_col(a, colvals(r, 'x')), keep_col(b, colvals(r, 'z')), keep_col(OTHER, colvals(r, 'y'))]


def fop_transpose(a, b, layout):
    f = frame2(a, b, layout)
    ds = [a.dtype] if len(layout) == 1 else [a.dtype, b.dtype]
    t = f.transpose()
    return [Col(p_iterdt(ds), from_arr(a, [i]) + from_arr(b, [i]), t[i].values) for i in range(len(a))]


def fop_iter_array_rows(a, b, layout):
    f = frame2(a, b, layout)
    ds = [a.dtype] if len(layout) == 1 else [a.dtype, b.dtype]
    return [Col(p_iterdt(ds), from_arr(a, [i]) + from_arr(b, [i]), row) for i, row in enumerate(f.iter_array(axis=1))]


def fop_concat1_union(a, b, layout):
    '''from_concat(axis=1) over a union index: every frame is reindexed with fill_value NaN.'''
    sf = _sf()
    f1 = zoo.frame_from_columns([a, OTHER], layout, columns=('x', 'y'), index=(0, 1, 2))
    f2 = sf.Frame.from_items((('z', b),), index=(1, 2, 3))
    r = sf.Frame.from_concat((f1, f2), axis=1)
    nan = float('nan')
    return ([Col(p_fill(a.dtype, nan), from_arr(a) + from_elem(nan), colvals(r, 'x')),
             Col(p_fill(OTHER.dtype, nan), from_arr(OTHER) + from_elem(nan), colvals(r, 'y')),
             Col(p_fill(b.dtype, nan), from_elem(nan) + from_arr(b), colvals(r, 'z'))], {}, [A(a), A(b), A(OTHER), E(nan)])


def fop_assign_row_series(a, b, layout):
    '''assign.iloc[row](Series): the Series' array meets every targeted block.'''
    sf = _sf()
    f = frame2(a, a, layout)
    r = f.assign.iloc[1](sf.Series(b[:2], index=('c0', 'c1')))
    # the row is written one scalar per block: resolve_dtype(array dtype, block dtype), then item assignment of b[j]
    # (a 2-D block receives the slice of the array instead: array conversion)
    two_d = len(layout) == 1
    cols = [Col(p_pair(b.dtype, a.dtype), from_arr(a, [0]) + (from_arr(b, [j]) if two_d else from_elem(b[j])) + from_arr(a, [2]), colvals(r, l))
            for j, l in enumerate(('c0', 'c1'))]
    return cols, {}, [A(a)] + ([A(b[:2])] if two_d else [E(b[0]), E(b[1])])


def fop_fillna_frame(a, b, layout):
    '''fillna(Frame): the fill frame is consolidated to ONE 2-D array first (composite: S only).'''
    sf = _sf()
    f = frame2(a, OTHER, layout)
    g = sf.Frame.from_items((('c0', b), ('c1', OTHER)))
    r = f.fillna(g)
    return [Col(None, _overlay_cells(a, b), colvals(r, 'c0')), Col(None, from_arr(OTHER), colvals(r, 'c1'))], {}, [A(a), A(b), A(OTHER)]


def fop_overlay(a, b, layout):
    sf = _sf()
    f = frame2(a, OTHER, layout)
    g = sf.Frame.from_items((('c0', b), ('c1', OTHER)))
    r = sf.Frame.from_overlay((f, g))
    if not any(_na_mask(a)):
        return [keep_col(a, colvals(r, 'c0')), keep_col(OTHER, colvals(r, 'c1'))]
    return [Col(None, _overlay_cells(a, b), colvals(r, 'c0')), keep_col(OTHER, colvals(r, 'c1'))]


def fop_from_dict_lists(a, b, layout):
    '''Frame.from_dict with plain lists: every column goes through iterable_to_array_1d.'''
    sf = _sf()
    xs = cells_of(a)[:2] + cells_of(b)[:1]
    r = sf.Frame.from_dict({'k': list(xs), 'n': [1, 2, 3]})
    tags = {}
    fnd = iter_finding(xs)
    if fnd:
        tags['finding'] = fnd
    return [Col(iter_plan(xs), [f'(FromElem {elem(x)})' for x in xs], colvals(r, 'k'))], tags, []


FRAME_ARR_OPS = [fop_row, fop_values, fop_concat0, fop_concat1_aligned, fop_assign_col_arr, fop_assign_part_arr, fop_insert_after,
                 fop_transpose, fop_iter_array_rows, fop_concat1_union, fop_assign_row_series, fop_fillna_frame, fop_overlay, fop_from_dict_lists]
SAME_PAIR_OPS = (fop_row, fop_values, fop_transpose, fop_iter_array_rows)


def frame_arr_cases(ctx):
    pairs = [(hd, od) for hd in HOSTS_FRAME for od in HOSTS_FRAME]
    for op in FRAME_ARR_OPS:
        sel = pairs if ctx.tier == 'thorough' else ctx.rng.sample(pairs, min(len(pairs), ctx.n(12, 0)))
        for hd, od in sel:
            a, b = host(hd), host(od)
            second = b.dtype if op in SAME_PAIR_OPS else (a.dtype if op is fop_assign_row_series else OTHER.dtype)
            for layout in zoo.layouts_for([a.dtype, second]):
                c = arr_case(ctx, 'api:frame-array', op, hd, od, layout=layout)
                if c is not None:
                    c.tags['layout'] = zoo.layout_str(layout)
                    yield c




# ------------------------------------------------------------------------------------------- Frame value assigned into a Frame (by blocks)
def from_via(a, mid_ds, idx):
    d = dt(a.dtype)
    mid = f'(concat_loop {dt(mid_ds[0])} {lit.lst([dt(x) for x in mid_ds[1:]])})'
    return [f'(FromVia {d} {mid} {cv(a[i])})' for i in idx]


def fop_assign_frame_value(td, v1d, v2d, layout, rows):
    '''f.assign.iloc[rows, [0, 1]](Frame): TypeBlocks._assign_from_iloc_by_blocks.  A target slice of a 2-D block takes the dtype
    resolve_dtype_iter(value block dtypes ..., block dtype); the value blocks are first joined by concat_resolved.'''
    sf = _sf()
    t = host(td)
    v1, v2 = host(v1d)[:len(rows)], host(v2d)[:len(rows)]
    f = zoo.frame_from_columns([t, na_free(t), OTHER], layout, columns=COLS3)
    val = sf.Frame.from_items((('c0', v1), ('c1', v2)), index=list(rows))
    r = f.assign.iloc[list(rows), [0, 1]](val)
    boc = block_of_columns(layout)
    keep_rows = [i for i in range(len(t)) if i not in rows]
    targets = [t, na_free(t)]
    cols = []

    def merged(j, valarr, plan_ds, via):
        cells, k = [], 0
        for i in range(len(t)):
            if i in rows:
                cells += (from_via(valarr, via, [k]) if via else from_arr(valarr, [k]))
                k += 1
            else:
                cells += from_arr(targets[j], [i])
        return Col(p_iterdt(plan_ds), cells, colvals(r, COLS3[j]))
    if boc[0] == boc[1]:      # both targeted columns in one 2-D block: one dtype over ALL value blocks and the block
        ds = [v1.dtype, v2.dtype, t.dtype]
        cols += [merged(0, v1, ds, [v1.dtype, v2.dtype]), merged(1, v2, ds, [v1.dtype, v2.dtype])]
    else:
        second_2d = layout[boc[1]][0] > 1     # c1 shares a 2-D block with c2: the targeted slice is still 2-D (width 1)
        cols += [merged(0, v1, [v1.dtype, t.dtype], None), merged(1, v2, [v2.dtype, t.dtype], [v2.dtype] if second_2d else None)]
    cols.append(keep_col(OTHER, colvals(r, 'c2')))
    return cols, [A(t), A(v1), A(v2)]


ASSIGN_VALUE_DTYPES = ['bool', 'int8', 'int64', 'float32', 'float64', '<U1', '<U4', 'M8[D]/full', 'M8[ns]/full', 'object']
ASSIGN_FIXED = [('<U1', '<U1', '<U4'), ('<U1', '<U4', '<U1'), ('int64', 'int64', 'float64'), ('int64', 'float64', 'int64'), ('float32', 'float32', 'float64'),
                ('int8', 'int8', 'int64'), ('S1', 'S1', 'S4'), ('M8[D]/full', 'M8[D]/full', 'M8[ns]/full'), ('float32', 'int8', 'float64'), ('<U1', 'int64', '<U4'),
                ('bool', 'bool', 'int8'), ('int32', 'float32', 'int32')]


def assign_frame_cases(ctx):
    grid = [(t, a, b) for t in HOSTS_FRAME for a in ASSIGN_VALUE_DTYPES for b in ASSIGN_VALUE_DTYPES]
    sel = ASSIGN_FIXED + (grid if ctx.tier == 'thorough' else ctx.rng.sample(grid, ctx.n(25, 0)))
    for td, v1d, v2d in sel:
        t = host(td)
        kinds = [host(x).dtype.kind for x in (td, v1d, v2d)] + [OTHER.dtype.kind]
        if any(excluded_pair(x, y) for x in kinds for y in kinds):
            continue
        for layout in layouts3(t):
            for rows in ((0, 2), (1,)) if (td, v1d, v2d) in ASSIGN_FIXED else ((0, 2),):
                desc = {'target_dtype': td, 'target': {'c0': rp(HOSTS[td]), 'c1': 'c0 without missing values', 'c2': '[10, 20, 30] int64'},
                        'value_frame': {'c0': f'{v1d} {rp(HOSTS[v1d][:len(rows)])}', 'c1': f'{v2d} {rp(HOSTS[v2d][:len(rows)])}'},
                        'call': f'f.assign.iloc[{list(rows)}, [0, 1]](value_frame)', 'layout': zoo.layout_str(layout)}
                try:
                    cols, sources = fop_assign_frame_value(td, v1d, v2d, layout, rows)
                except Exception as e:  # noqa
                    cols, sources = e, []
                c = mk_case(ctx, 'api:frame-assign-frame', 'assign_frame_value', desc, cols, sources, tags={'layout': zoo.layout_str(layout)},
                            nontrivial=len({td.split('/')[0], v1d.split('/')[0], v2d.split('/')[0]}) > 1)
                if c is not None:
                    yield c


# ------------------------------------------------------------------------------------------- directional fill along axis 1 across blocks
NA_CAPABLE = ['float16', 'float32', 'float64', 'complex64', 'complex128', 'M8[Y]', 'M8[W]', 'M8[D]', 'M8[h]', 'M8[s]', 'M8[ns]',
              'm8[Y]', 'm8[D]', 'm8[s]', 'm8[ns]', 'object']
EXTRA_LEFT = {'int32/big': np.array([16777217, 5, 16777217], dtype=np.int32)}


def left_column(ld):
    '''The neighbour column the fill comes from: no missing value, rows ordered so that the filled rows take values whose narrowing is visible.'''
    if ld in EXTRA_LEFT:
        a = EXTRA_LEFT[ld].copy()
    else:
        h = na_free(host(ld))
        a = np.array([h[1], h[0], h[2] if not isna(host(ld)[2]) else h[0]], dtype=h.dtype) if h.dtype.kind != 'O' else _obj_array([h[1], h[0], h[2]])
    a.flags.writeable = False
    return a


def right_columns(rd):
    b = host(rd)
    na = b[2]
    r0 = b.copy()
    r0[0] = na                       # missing at rows 0 and 2: the entry edge of the block
    r0.flags.writeable = False
    return r0, na_free(b)


def fop_directional(ld, rd, layout, forward):
    L = left_column(ld)
    r0, r1 = right_columns(rd)
    if forward:
        cols_in, names = [L, r0, r1], ('L', 'R0', 'R1')
    else:
        cols_in, names = [r1, r0, L], ('R1', 'R0', 'L')
    f = zoo.frame_from_columns(cols_in, layout, columns=names)
    r = f.fillna_forward(axis=1) if forward else f.fillna_backward(axis=1)
    boc = block_of_columns(layout)
    pos = {n: j for j, n in enumerate(names)}
    first_block = boc[pos['L']]       # the block the fill starts from never changes dtype
    hit_block = boc[pos['R0']]
    retyped = hit_block != first_block
    na0 = _na_mask(r0)
    # the bridged values are written cell by cell (mask / item assignment): an object block keeps the scalar as it is
    # a 1-D block takes them by mask assignment of the neighbour ARRAY (array conversion)
    one_d = not layout[hit_block][1]
    cells_r0 = sum((((from_arr(L, [i]) if one_d else from_elem(L[i])) if na0[i] else from_arr(r0, [i])) for i in range(len(r0))), [])
    out = [keep_col(L, colvals(r, 'L'))]
    out.append(Col(p_pair(L.dtype, r0.dtype) if retyped else p_keep(r0.dtype), cells_r0, colvals(r, 'R0')))
    if boc[pos['R1']] == hit_block and retyped:
        out.append(Col(p_pair(L.dtype, r1.dtype), from_arr(r1), colvals(r, 'R1'), keep=r1.dtype))
        tags = {'finding': 'C07-block-retype'} if L.dtype != r1.dtype else {}
    else:
        out.append(keep_col(r1, colvals(r, 'R1')))
        tags = {}
    return out, tags, [A(r0)] + ([A(L)] if one_d else [E(L[i]) for i in range(len(r0)) if na0[i]])


DIRECTIONAL_FIXED = [('float64', 'float32'), ('float32', 'float64'), ('int32/big', 'float32'), ('int32', 'float32'), ('int64', 'float64'), ('M8[h]', 'M8[D]'),
                     ('M8[D]', 'M8[h]'), ('M8[ns]/full', 'M8[s]'), ('m8[s]', 'm8[D]'), ('complex128', 'complex64'), ('float64', 'float16'), ('<U4', 'object'),
                     ('int8', 'float16'), ('uint64', 'float64')]


def directional_cases(ctx):
    grid = [(l, r) for l in list(HOSTS_FRAME) + ['M8[h]', 'M8[s]', 'float32', 'int32', 'm8[s]'] for r in NA_CAPABLE]
    sel = DIRECTIONAL_FIXED + (grid if ctx.tier == 'thorough' else ctx.rng.sample(grid, ctx.n(16, 0)))
    for ld, rd in sel:
        L = left_column(ld)
        b = host(rd)
        if excluded_pair(L.dtype.kind, b.dtype.kind):
            continue
        for forward in (True, False):
            dts = [L.dtype, b.dtype, b.dtype] if forward else [b.dtype, b.dtype, L.dtype]
            for layout in zoo.layouts_for(dts):
                desc = {'left_dtype': ld, 'left': rp(L.tolist() if L.dtype.kind not in 'Mm' else [str(x) for x in L]), 'right_dtype': rd,
                        'right': 'R0 = host column with missing values at rows 0 and 2, R1 = the same without missing values: ' + rp(HOSTS[rd]),
                        'call': f'fillna_{"forward" if forward else "backward"}(axis=1)', 'column_order': 'L R0 R1' if forward else 'R1 R0 L',
                        'layout': zoo.layout_str(layout)}
                tags = {'layout': zoo.layout_str(layout)}
                try:
                    cols, extra, sources = fop_directional(ld, rd, layout, forward)
                    tags.update(extra)
                except Exception as e:  # noqa
                    cols, sources = e, []
                c = mk_case(ctx, 'api:frame-directional', 'fillna_forward_axis1' if forward else 'fillna_backward_axis1', desc, cols, sources, tags=tags,
                            nontrivial=L.dtype != b.dtype)
                if c is not None:
                    yield c


# ------------------------------------------------------------------------------------------- pivot_unstack: ragged and complete targets
PIVOT_SHAPES = {   # index labels (tree ordered), depth_level
    'ragged-first': ([('x', 'a'), ('x', 'b'), ('x', 'c'), ('y', 'b'), ('y', 'c')], -1),
    'ragged-last': ([('x', 'a'), ('x', 'b'), ('x', 'c'), ('y', 'a'), ('y', 'b')], -1),
    'ragged-middle': ([('x', 'a'), ('x', 'b'), ('x', 'c'), ('y', 'a'), ('y', 'c')], -1),
    'two-ragged-then-complete': ([('x', 'a'), ('x', 'c'), ('y', 'b'), ('y', 'c')], -1),
    'all-complete': ([('x', 'a'), ('x', 'b'), ('y', 'a'), ('y', 'b')], -1),
    'outer-ragged-first': ([('x', 'b'), ('x', 'c'), ('y', 'a'), ('y', 'b'), ('y', 'c')], 0),
    'outer-ragged-last': ([('x', 'a'), ('x', 'b'), ('x', 'c'), ('y', 'b'), ('y', 'c')], 0),
}
PIVOT_INT = np.array([2**53 + 1, 2, 3, 2**60 + 1, 5], dtype=np.int64)
PIVOT_FILLS = [float('nan'), 0, 1.5, 'xy', None, True, 2**53 + 1]


def _elems_src(d, values):
    z = Src.__new__(Src)
    z.dtype, z.values, z.is_arr = np.dtype(d), list(values), False
    return z


def pivot_case(ctx, hd, fill, shape, layout, default_fill=False):
    '''Frame.pivot_unstack: a new column that needed the fill value takes resolve_dtype(source dtype, fill dtype) once per missing cell;
    a new column that needed no fill keeps the source column's dtype exactly; every cell is the source cell or the fill value.'''
    sf = _sf()
    labels, depth_level = PIVOT_SHAPES[shape]
    n = len(labels)
    h = host(hd)
    c0 = np.array([h[i % 3] for i in range(n)], dtype=h.dtype) if h.dtype.kind != 'O' else _obj_array([h[i % 3] for i in range(n)])
    c1 = PIVOT_INT[:n].copy()
    for a in (c0, c1):
        a.flags.writeable = False
    if excluded_pair(c0.dtype.kind, kind_of_elem(fill)):
        return None
    desc = {'shape': shape, 'index': [list(l) for l in labels], 'depth_level': depth_level, 'columns': {'c0': f'{hd} {rp(c0.tolist() if c0.dtype.kind not in "Mm" else [str(x) for x in c0])}',
            'c1': f'int64 {PIVOT_INT[:n].tolist()}'}, 'fill_value': 'default (nan)' if default_fill else rp(fill), 'layout': zoo.layout_str(layout),
            'call': 'f.pivot_unstack(depth_level' + ('' if default_fill else ', fill_value=...') + ')'}
    ragged_values = {0: [], 1: []}
    try:
        f = zoo.frame_from_columns([c0, c1], layout, columns=('c0', 'c1'), index=sf.IndexHierarchy.from_labels(labels))
        r = f.pivot_unstack(depth_level) if default_fill else f.pivot_unstack(depth_level, fill_value=fill)
        where = {tuple(l): i for i, l in enumerate(labels)}
        groups = [g if isinstance(g, str) else g[0] for g in r.index.values.tolist()]
        cols = []
        for key in r.columns.values.tolist():
            src_label, target = key[0], key[1]
            j = 0 if src_label == 'c0' else 1
            arr = (c0, c1)[j]
            rows = [where.get((g, target) if depth_level == -1 else (target, g)) for g in groups]
            missing = sum(1 for x in rows if x is None)
            cells = [f'(FromElem {elem(arr[x])})' if x is not None else f'(FromElem {elem(fill)})' for x in rows]
            obs = r[tuple(key)].values
            if missing:
                ragged_values[j] += [arr[x] for x in rows if x is not None]
                cols.append(Col(f'(PSteps {dt(arr.dtype)} {lit.lst([elem(fill)] * missing)})', cells, obs))
            else:
                cols.append(Col(p_keep(arr.dtype), cells, obs, keep=arr.dtype))
    except Exception as e:  # noqa
        cols = e
    # finding classes only from the cells that really meet the fill value (the ragged targets)
    sources = [_elems_src(a.dtype, ragged_values[j]) for j, a in enumerate((c0, c1)) if ragged_values[j]]
    if sources:
        sources.append(E(fill))
    return mk_case(ctx, 'api:pivot-unstack', 'pivot_unstack', desc, cols, sources, tags={'layout': zoo.layout_str(layout), 'shape': shape},
                   nontrivial=shape != 'all-complete')


PIVOT_FIXED = ['int64', 'bool', '<U1', '<U4', 'float32', 'int8', 'uint64', 'M8[D]', 'S4', 'object']


def pivot_cases(ctx):
    done = set()
    for hd in PIVOT_FIXED:                      # default fill value over every shape and layout: always run
        for shape in PIVOT_SHAPES:
            for layout in zoo.layouts_for([host(hd).dtype, PIVOT_INT.dtype]):
                done.add((hd, 0, shape, layout))
                c = pivot_case(ctx, hd, float('nan'), shape, layout, default_fill=True)
                if c is not None:
                    yield c
    grid = [(hd, k, shape) for hd in HOSTS_FRAME for k in range(len(PIVOT_FILLS)) for shape in PIVOT_SHAPES]
    sel = grid if ctx.tier == 'thorough' else ctx.rng.sample(grid, ctx.n(40, 0))
    for hd, k, shape in sel:
        for layout in zoo.layouts_for([host(hd).dtype, PIVOT_INT.dtype]):
            c = pivot_case(ctx, hd, PIVOT_FILLS[k], shape, layout)
            if c is not None:
                yield c


# ------------------------------------------------------------------------------------------- further routes (coverage-guided)
def xop_s_concat_items(a, b):
    sf = _sf()
    r = sf.Series.from_concat_items((('p', sf.Series(a)), ('q', sf.Series(b))))
    return [Col(p_concat([a.dtype, b.dtype]), from_arr(a) + from_arr(b), r.values)]


def xop_f_concat_items(a, b):
    sf = _sf()
    f1 = sf.Frame.from_items((('x', a), ('y', OTHER)))
    f2 = sf.Frame.from_items((('x', b), ('y', OTHER)))
    r = sf.Frame.from_concat_items((('p', f1), ('q', f2)))
    return [Col(p_concat([a.dtype, b.dtype]), from_arr(a) + from_arr(b), colvals(r, 'x')),
            Col(p_concat([OTHER.dtype, OTHER.dtype]), from_arr(OTHER) + from_arr(OTHER), colvals(r, 'y'), keep=OTHER.dtype)]


def xop_f_concat0_union_columns(a, b):
    '''from_concat(axis=0) over a union of columns: a frame without the column is reindexed with NaN first (composite: S only).'''
    sf = _sf()
    nan = float('nan')
    f1 = sf.Frame.from_items((('x', a), ('y', a)))
    f2 = sf.Frame.from_items((('x', b), ('z', b)))
    r = sf.Frame.from_concat((f1, f2), index=sf.IndexAutoFactory)
    cols = [Col(p_concat([a.dtype, b.dtype]), from_arr(a) + from_arr(b), colvals(r, 'x')),
            Col(None, from_arr(a) + from_elem(nan, len(b)), colvals(r, 'y')),
            Col(None, from_elem(nan, len(a)) + from_arr(b), colvals(r, 'z'))]
    return cols, {}, [A(a), A(b), E(nan)]


def xop_f_concat0_incompatible_blocks(a, b):
    '''axis-0 concatenation of frames whose block layouts differ (column-by-column / reblock paths of vstack_blocks_to_blocks).'''
    sf = _sf()
    f1 = zoo.frame_from_columns([a, a, OTHER], ((2, True), (1, False)), columns=('x', 'y', 'z'))
    f2 = zoo.frame_from_columns([b, a, OTHER], ((1, False), (1, True), (1, False)), columns=('x', 'y', 'z'))
    f3 = zoo.frame_from_columns([a, b, OTHER], ((1, True), (1, False), (1, True)), columns=('x', 'y', 'z'))
    r = sf.Frame.from_concat((f1, f2, f3), index=sf.IndexAutoFactory)
    return [Col(p_concat([a.dtype, b.dtype, a.dtype]), from_arr(a) + from_arr(b) + from_arr(a), colvals(r, 'x')),
            Col(p_concat([a.dtype, a.dtype, b.dtype]), from_arr(a) + from_arr(a) + from_arr(b), colvals(r, 'y')),
            Col(p_concat([OTHER.dtype] * 3), from_arr(OTHER) * 3, colvals(r, 'z'), keep=OTHER.dtype)]


def xop_f_setitem_series_misaligned(a, b):
    sf = _sf()
    nan = float('nan')
    g = sf.FrameGO.from_items((('x', a),))
    g['n'] = sf.Series(b[:2], index=[0, 1])
    return [keep_col(a, g['x'].values), Col(p_fill(b.dtype, nan), from_arr(b, [0, 1]) + from_elem(nan), g['n'].values)], {}, [A(a), A(b), E(nan)]


def xop_f_extend_series_fill(a, b):
    sf = _sf()
    g = sf.FrameGO.from_items((('x', a),))
    fv = a[0]
    g.extend(sf.Series(b[1:], index=[1, 2], name='m'), fill_value=fv)
    return [keep_col(a, g['x'].values), Col(p_fill(b.dtype, fv), from_elem(fv) + from_arr(b, [1, 2]), g['m'].values)], {}, [A(b), E(fv)]


def xop_f_from_items_series(a, b):
    sf = _sf()
    nan = float('nan')
    r = sf.Frame.from_items((('x', sf.Series(a)), ('y', sf.Series(b[:2], index=[1, 2]))), index=range(3))
    return [keep_col(a, colvals(r, 'x')), Col(p_fill(b.dtype, nan), from_elem(nan) + from_arr(b, [0, 1]), colvals(r, 'y'))], {}, [A(b), E(nan)]


def xop_f_insert_before(a, b):
    sf = _sf()
    f = sf.Frame.from_items((('x', a), ('y', OTHER)))
    r = f.insert_before('y', sf.Frame.from_items((('p', b), ('q', b))))
    return [keep_col(a, colvals(r, 'x')), keep_col(b, colvals(r, 'p')), keep_col(b, colvals(r, 'q')), keep_col(OTHER, colvals(r, 'y'))]


def _set_terms(kind, a, b, obs):
    sup_a, sup_b = [cv(x) for x in cells_of(a)], [cv(x) for x in cells_of(b)]
    o = lit.lst([cv(x) for x in cells_of(obs)])
    if kind == 'union':
        return Raw(f'M_dtype_check {p_pair(a.dtype, b.dtype)} {dt(obs.dtype)}', f'S_union {lit.lst(sup_a + sup_b)} {o}')
    return Raw('true', f'S_subset {lit.lst(sup_a)} {o}')


def xop_idx_union(a, b):
    sf = _sf()
    r = sf.Index(a).union(sf.Index(b))
    return [_set_terms('union', a, b, r.values)]


def xop_idx_intersection(a, b):
    sf = _sf()
    b2 = np.concatenate([b[:1], b[:1]]) if False else b
    r = sf.Index(a).intersection(sf.Index(b2))
    return [_set_terms('intersection', a, b, r.values)]


def xop_idx_difference(a, b):
    sf = _sf()
    r = sf.Index(a).difference(sf.Index(b))
    return [_set_terms('difference', a, b, r.values)]


def xop_ih_values_at_depth(a, b):
    '''A hierarchy whose inner level has a different dtype per subtree: values_at_depth resolves over the subtrees.'''
    sf = _sf()
    ih = sf.IndexHierarchy.from_index_items((('p', sf.Index(a[:2])), ('q', sf.Index(b[:2]))))
    v = ih.values_at_depth(1)
    sr = sf.Series(np.arange(4), index=ih)
    v2 = sr.index.values[:, 1]     # the 2-D label array: the inner level meets the str outer level
    return ([Col(p_iterdt([a.dtype, b.dtype]), from_arr(a, [0, 1]) + from_arr(b, [0, 1]), v), Col(None, from_arr(a, [0, 1]) + from_arr(b, [0, 1]), v2)],
            {}, [A(a[:2]), A(b[:2]), A(np.array(['p', 'q']))])


def xop_f_row_subset(a, b):
    '''row consolidation of a SUBSET of the columns / rows (TypeBlocks._extract_array with both keys).'''
    f = zoo.frame_from_columns([a, b, OTHER], tuple((1, False) for _ in range(3)), columns=COLS3)
    r1 = f.iloc[1, [0, 1]].values
    r2 = f.iloc[[0, 2], [1, 2]].values
    r3 = f.loc[2, ['c2', 'c0']].values
    return [Col(p_iterdt([a.dtype, b.dtype]), from_arr(a, [1]) + from_arr(b, [1]), r1),
            Col(p_iterdt([b.dtype, OTHER.dtype]), from_arr(b, [0, 2]), r2[:, 0]), Col(p_iterdt([b.dtype, OTHER.dtype]), from_arr(OTHER, [0, 2]), r2[:, 1]),
            Col(p_iterdt([OTHER.dtype, a.dtype]), from_arr(OTHER, [2]) + from_arr(a, [2]), r3)], {}, [A(a), A(b), A(OTHER)]


def xop_f_bloc_array(a, b):
    '''assign.bloc[mask](2-D array): _assign_from_bloc_by_unit with an array value, block by block.'''
    sf = _sf()
    out = []
    for layout in (((2, True), (1, False)), ((1, False), (1, True), (1, False))):
        f = frame3(a, layout)
        val = np.empty((3, 3), dtype=b.dtype)
        for j in range(3):
            val[:, j] = b
        mask = sf.Frame(np.array([[True, False, False], [False, False, False], [False, False, False]]), columns=COLS3)
        r = f.assign.bloc[mask](val)
        srcs = [a, na_free(a), OTHER]
        plans = _block_plans(layout, srcs, [0], lambda c: p_pair(b.dtype, c.dtype))
        out.append(Col(plans[0], from_arr(b, [0]) + from_arr(a, [1, 2]), colvals(r, 'c0')))
        for j in (1, 2):
            c = srcs[j]
            out.append(keep_col(c, colvals(r, COLS3[j])) if plans[j] is None else Col(plans[j], from_arr(c), colvals(r, COLS3[j]), keep=c.dtype))
    tags = {'finding': 'C07-block-retype'} if b.dtype != a.dtype else {}
    return out, tags, [A(a), A(b)]


def xop_f_bloc_frame(a, b):
    '''assign.bloc[mask](Frame): _assign_from_bloc_by_blocks; every value column that meets a targeted block retypes its column.'''
    sf = _sf()
    out = []
    for layout in (((2, True), (1, False)), ((1, False), (1, True), (1, False))):
        f = frame3(a, layout)
        g = sf.Frame.from_items((('c0', b), ('c1', b), ('c2', OTHER)))
        mask = sf.Frame(np.array([[True, False, False], [False, False, False], [True, False, False]]), columns=COLS3)
        r = f.assign.bloc[mask](g)
        same_block = layout[0][0] == 2
        out.append(Col(p_pair(b.dtype, a.dtype), from_arr(b, [0]) + from_arr(a, [1]) + from_arr(b, [2]), colvals(r, 'c0')))
        c1 = na_free(a)
        out.append(Col(p_pair(b.dtype, a.dtype), from_arr(c1), colvals(r, 'c1'), keep=c1.dtype) if same_block else keep_col(c1, colvals(r, 'c1')))
        out.append(keep_col(OTHER, colvals(r, 'c2')))
    tags = {'finding': 'C07-block-retype'} if b.dtype != a.dtype else {}
    return out, tags, [A(a), A(b)]


def xop_f_bloc_series(a, b):
    '''assign.bloc[mask](Series of (row, column) -> value): _assign_from_bloc_by_coordinate.'''
    sf = _sf()
    out = []
    for layout in (((2, True), (1, False)), ((1, False), (1, True), (1, False))):
        f = frame3(a, layout)
        mask = sf.Frame(np.array([[True, False, False], [False, False, False], [True, False, False]]), columns=COLS3)
        sel = f.bloc[mask]
        sv = sf.Series(b[:2], index=sel.index)
        r = f.assign.bloc[mask](sv)
        srcs = [a, na_free(a), OTHER]
        plans = _block_plans(layout, srcs, [0], lambda c: p_pair(b.dtype, c.dtype))
        out.append(Col(plans[0], from_elem(b[0]) + from_arr(a, [1]) + from_elem(b[1]), colvals(r, 'c0')))
        for j in (1, 2):
            c = srcs[j]
            out.append(keep_col(c, colvals(r, COLS3[j])) if plans[j] is None else Col(plans[j], from_arr(c), colvals(r, COLS3[j]), keep=c.dtype))
    tags = {'finding': 'C07-block-retype'} if b.dtype != a.dtype else {}
    return out, tags, [A(a), E(b[0]), E(b[1])]


def _join_frames(a, b):
    sf = _sf()
    return (sf.Frame.from_items((('k', np.arange(3)), ('x', a))), sf.Frame.from_items((('k', np.arange(2)), ('y', b[:2]))))


def _join_col(xs, obs):
    tags = {}
    fnd = iter_finding(xs)
    if fnd:
        tags['finding'] = fnd
    return Col(iter_plan(xs), [f'(FromElem {elem(x)})' for x in xs], obs), tags


def xop_f_join_default(a, b):
    '''join_left / join_outer: the right column is rebuilt as a LIST of its cells and the fill value (NaN), then set as a new column
    (iterable_to_array_1d); join_inner needs no fill.'''
    left, right = _join_frames(a, b)
    nan = float('nan')
    xs = cells_of(b[:2]) + [nan]
    r = left.join_left(right, left_columns='k', right_columns='k', right_template='r_{}')
    c1, tags = _join_col(xs, colvals(r, 'r_y'))
    r2 = left.join_outer(right, left_columns='k', right_columns='k', right_template='r_{}')
    c2, _ = _join_col(xs, colvals(r2, 'r_y'))
    r3 = left.join_inner(right, left_columns='k', right_columns='k', right_template='r_{}')
    c3, _ = _join_col(cells_of(b[:2]), colvals(r3, 'r_y'))
    return [keep_col(a, colvals(r, 'x')), c1, keep_col(a, colvals(r2, 'x')), c2, keep_col(a[:2], colvals(r3, 'x')), c3], tags, []


def xop_f_join_fill(a, b):
    left, right = _join_frames(a, b)
    fv = a[0]
    xs = cells_of(b[:2]) + [fv]
    r = left.join_left(right, left_columns='k', right_columns='k', right_template='r_{}', fill_value=fv, composite_index=False)
    c1, tags = _join_col(xs, colvals(r, 'r_y'))
    return [keep_col(a, colvals(r, 'x')), c1], tags, []


def xop_f_pivot_stack(a, b):
    '''pivot_stack: columns (x,p) and (x,q) of different dtypes are interleaved into one column x.'''
    sf = _sf()
    f = sf.Frame.from_items(((('x', 'p'), a), (('x', 'q'), b)), columns_constructor=sf.IndexHierarchy.from_labels)
    r = f.pivot_stack()
    cells = sum((from_elem(a[i]) + from_elem(b[i]) for i in range(len(a))), [])
    return [Col(None, cells, r['x'].values)], {}, [E(x) for x in cells_of(a)] + [E(x) for x in cells_of(b)]


def xop_ihgo_append(a, b):
    '''IndexHierarchyGO.append / extend with an inner label of another dtype.'''
    sf = _sf()
    g = sf.IndexHierarchyGO.from_index_items((('p', sf.Index(a[:2])),))
    g.append(('p', b[0]))
    v = g.values_at_depth(1)
    g2 = sf.IndexHierarchyGO.from_index_items((('p', sf.Index(a[:2])),))
    g2.extend(sf.IndexHierarchy.from_index_items((('q', sf.Index(b[:2])),)))
    v2 = g2.values_at_depth(1)
    # the grown level is rebuilt from its labels (IndexGO / iterable_to_array_1d): the label-list finding classes apply
    tags = _indexgo_years_tag(a, [b[0]], v)
    fnd = iter_finding(cells_of(a[:2]) + cells_of(b[:2]))
    if fnd and not tags:
        tags = {'finding': fnd}
    return [Col(None, from_arr(a, [0, 1]) + from_elem(b[0]), v), Col(None, from_arr(a, [0, 1]) + from_arr(b, [0, 1]), v2)], tags, [A(a[:2]), A(b[:2]), E(b[0])]


def xop_ih_union(a, b):
    sf = _sf()
    i1 = sf.IndexHierarchy.from_index_items((('p', sf.Index(a[:2])),))
    i2 = sf.IndexHierarchy.from_index_items((('p', sf.Index(b[:2])),))
    r = i1.union(i2).values[:, 1]
    o = lit.lst([cv(x) for x in cells_of(r)])
    sup = [cv(x) for x in cells_of(a[:2])] + [cv(x) for x in cells_of(b[:2])]
    # the union is rebuilt from its label tuples (IndexHierarchy.from_labels -> iterable_to_array_1d per depth)
    # (numbers arrive there as Python objects: the 2-D label array is an object array)
    as_py = lambda x: x.item() if isinstance(x, np.generic) and x.dtype.kind in 'biufc' else x
    fnd = iter_finding([as_py(x) for x in cells_of(a[:2]) + cells_of(b[:2])]) or iter_finding(cells_of(a[:2]) + cells_of(b[:2]))
    return [Raw('true', f'S_union {lit.lst(sup)} {o}')], ({'finding': fnd} if fnd else {}), [A(a[:2]), A(b[:2]), A(np.array(['p', 'q']))]


EXT_ARR_OPS = [xop_s_concat_items, xop_f_concat_items, xop_f_concat0_union_columns, xop_f_concat0_incompatible_blocks, xop_f_setitem_series_misaligned,
               xop_f_extend_series_fill, xop_f_from_items_series, xop_f_insert_before, xop_idx_union, xop_idx_intersection, xop_idx_difference,
               xop_ih_values_at_depth, xop_f_row_subset, xop_f_bloc_array, xop_f_bloc_frame, xop_f_bloc_series,
               xop_f_join_default, xop_f_join_fill, xop_f_pivot_stack, xop_ihgo_append, xop_ih_union]


# ---- element routes
def xop_f_fillna_leading(a, fv, layout):
    f = frame3(a[::-1], layout)
    a = a[::-1]
    r = f.fillna_leading(fv)
    srcs = [a, na_free(a), OTHER]
    hit = [j for j, c in enumerate(srcs) if _na_mask(c)[0]]
    plans = _block_plans(layout, srcs, hit, lambda c: p_fill(c.dtype, fv, True))
    cols = []
    for j, (c, l) in enumerate(zip(srcs, COLS3)):
        na = _na_mask(c)
        k = 0
        while k < len(c) and na[k]:
            k += 1
        if plans[j] is None:
            cols.append(keep_col(c, colvals(r, l)))
        else:
            cols.append(Col(plans[j], _fillna_cells(c, fv, lambda i: i < k), colvals(r, l), keep=None if j in hit else c.dtype))
    return cols, _retype_tag(layout, srcs, hit, elem_np_dtype(fv))


def _sided_axis1(a, fv, layout, leading):
    '''fillna_leading/trailing(axis=1): the missing cells at the row edge of the first (last) block are filled; the block is retyped as a whole.'''
    srcs = [a, na_free(a), OTHER] if leading else [OTHER, na_free(a), a]
    names = COLS3
    lay = layout if leading else tuple(reversed(layout))
    f = zoo.frame_from_columns(srcs, lay, columns=names)
    r = f.fillna_leading(fv, axis=1) if leading else f.fillna_trailing(fv, axis=1)
    edge = 0 if leading else 2
    na = _na_mask(srcs[edge])
    hit = [edge] if any(na) else []
    plans = _block_plans(lay, srcs, hit, lambda c: p_fill(c.dtype, fv, True))
    cols = []
    for j, (c, l) in enumerate(zip(srcs, names)):
        if plans[j] is None:
            cols.append(keep_col(c, colvals(r, l)))
        elif j == edge:
            cols.append(Col(plans[j], _fillna_cells(c, fv, lambda i: na[i]), colvals(r, l)))
        else:
            cols.append(Col(plans[j], from_arr(c), colvals(r, l), keep=c.dtype))
    return cols, _retype_tag(lay, srcs, hit, elem_np_dtype(fv))


def xop_f_fillna_leading_axis1(a, fv, layout):
    return _sided_axis1(a, fv, layout, True)


def xop_f_fillna_trailing_axis1(a, fv, layout):
    return _sided_axis1(a, fv, layout, False)


def xop_f_shift_both(a, fv, layout):
    f = frame3(a, layout)
    r = f.shift(1, 1, fill_value=fv)
    b = na_free(a)
    return [Col(p_elem(fv), from_elem(fv, 3), colvals(r, 'c0')),
            Col(p_fill(a.dtype, fv), from_elem(fv) + from_arr(a, [0, 1]), colvals(r, 'c1')),
            Col(p_fill(b.dtype, fv), from_elem(fv) + from_arr(b, [0, 1]), colvals(r, 'c2'))]


def xop_f_shift_cols_neg(a, fv, layout):
    f = frame3(a, layout)
    r = f.shift(0, -2, fill_value=fv)
    return [keep_col(OTHER, colvals(r, 'c0')), Col(p_elem(fv), from_elem(fv, 3), colvals(r, 'c1')), Col(p_elem(fv), from_elem(fv, 3), colvals(r, 'c2'))]


def xop_f_reindex_no_common(a, fv, layout):
    f = frame3(a, layout)
    r1 = f.reindex(columns=['z', 'w'], fill_value=fv)
    r2 = f.reindex(index=[7, 8], columns=['z'], fill_value=fv)
    r3 = f.reindex(index=[2, 0], columns=['c2', 'c0'], fill_value=fv)
    return [Col(p_elem(fv), from_elem(fv, 3), colvals(r1, 'z')), Col(p_elem(fv), from_elem(fv, 3), colvals(r1, 'w')),
            Col(p_elem(fv), from_elem(fv, 2), colvals(r2, 'z')),
            keep_col(OTHER[[2, 0]], colvals(r3, 'c2')), keep_col(a[[2, 0]], colvals(r3, 'c0'))]


EXT_ELEM_OPS = [xop_f_fillna_leading, xop_f_fillna_leading_axis1, xop_f_fillna_trailing_axis1, xop_f_shift_both, xop_f_shift_cols_neg,
                xop_f_reindex_no_common]
TUPLE_OK |= {'xop_f_shift_both', 'xop_f_reindex_no_common'}


def ext_cases(ctx):
    pairs = [(hd, od) for hd in HOSTS_FRAME for od in HOSTS_FRAME]
    for op in EXT_ARR_OPS:
        sel = pairs if ctx.tier == 'thorough' else ctx.rng.sample(pairs, ctx.n(10, 0))
        for hd, od in sel:
            c = arr_case(ctx, 'api:routes-ext', op, hd, od)
            if c is not None:
                yield c
    epairs = [(hd, fv) for hd in HOSTS_FRAME for fv in FILLS_FRAME]
    for op in EXT_ELEM_OPS:
        sel = epairs if ctx.tier == 'thorough' else ctx.rng.sample(epairs, ctx.n(6, 0))
        for hd, fv in sel:
            layouts = layouts3(host(hd))
            for layout in (layouts if op in (xop_f_fillna_leading, xop_f_fillna_leading_axis1, xop_f_fillna_trailing_axis1) else layouts[::3]):
                c = frame_elem_case(ctx, op, hd, fv, layout)
                if c is not None:
                    c.kind = 'api:routes-ext'
                    yield c


# ------------------------------------------------------------------------------------------- fillna(Series) / from_overlay on entirely missing receivers
def _receiver(kind):
    if kind == 'float64-allnan':
        a = np.full(4, np.nan)
    elif kind == 'float64-partial':
        a = np.array([1.5, np.nan, np.nan, np.nan])
    elif kind == 'object-allnone':
        a = np.empty(4, dtype=object)
    elif kind == 'object-partial':
        a = _obj_array(['keep', None, None, None])
    elif kind == 'M8[D]-allnat':
        a = np.full(4, np.datetime64('NaT'), dtype='M8[D]')
    elif kind == 'm8[s]-allnat':
        a = np.full(4, np.timedelta64('NaT'), dtype='m8[s]')
    else:
        raise KeyError(kind)
    a.flags.writeable = False
    return a


RECEIVERS = ['float64-allnan', 'float64-partial', 'object-allnone', 'object-partial', 'M8[D]-allnat', 'm8[s]-allnat']
FILL_LABELS = {'some': [1, 3], 'none': [], 'proper-subset': [0, 1, 2], 'one-outside': [2, 9], 'all-outside': [7, 8]}
FILLNA_FIXED = ['int8', 'int64', 'uint8', 'uint64', 'bool', '<U1', '<U4', 'S4', 'm8[D]/full', 'm8[ns]/full', 'float32', 'M8[ns]/full']


def fillna_series_case(ctx, rk, fd, lk):
    '''Series.fillna(Series): only cells that are missing in the receiver AND labelled in the fill Series are written; every other cell
    stays what it was (still missing).  dtype: resolve_dtype(fill dtype, receiver dtype) when something is written, unchanged otherwise.'''
    sf = _sf()
    r = _receiver(rk)
    labels = FILL_LABELS[lk]
    fa = host(fd)[:len(labels)]
    if excluded_pair(r.dtype.kind, fa.dtype.kind):
        return None
    desc = {'receiver': rk, 'receiver_values': rp(r.tolist() if r.dtype.kind not in 'Mm' else [str(x) for x in r]), 'receiver_index': [0, 1, 2, 3],
            'fill_dtype': fd, 'fill_values': rp(HOSTS[fd][:len(labels)]), 'fill_index': labels, 'call': 'receiver.fillna(fill_series)'}
    try:
        out = sf.Series(r).fillna(sf.Series(fa, index=labels))
        na = _na_mask(r)
        written = [i for i in range(4) if na[i] and i in labels]
        cells = []
        for i in range(4):
            cells += from_arr(fa, [labels.index(i)]) if i in written else from_arr(r, [i])
        plan = p_pair(fa.dtype, r.dtype) if written else p_keep(r.dtype)
        cols = [Col(plan, cells, out.values, keep=None if written else r.dtype)]
        sources = [A(r), A(fa[[labels.index(i) for i in written]])] if written else []
    except Exception as e:  # noqa
        cols, sources = e, []
    return mk_case(ctx, 'api:fillna-partial', 'fillna_series', desc, cols, sources, tags={'labels': lk, 'receiver': rk}, nontrivial=bool(labels))


def overlay_case(ctx, d0, d1, d2, l2k):
    '''Series.from_overlay((c0, c1, c2), index=...) where c0 shares no label with the index: every cell is the value of the first
    container that has the label, or still missing (composite path: S only).'''
    sf = _sf()
    idx = [0, 1, 2, 3]
    c0 = host(d0)[:2]
    c0 = na_free(c0)
    c1, c2 = host(d1)[:2], host(d2)
    l1, l2 = [1, 3], {'c2-some': [0, 1, 2], 'c2-few': [0, 1]}[l2k]
    c2 = c2[:len(l2)]
    kinds = [c0.dtype.kind, c1.dtype.kind, c2.dtype.kind]
    if any(excluded_pair(x, y) for x in kinds for y in kinds):
        return None
    k = c0.dtype.kind
    na = float('nan') if k in 'iufc' else (np.datetime64('NaT') if k in 'Mm' else None)
    desc = {'index': idx, 'c0': f'{d0} labels [10, 11] (no label in the index)', 'c1': f'{d1} {rp(HOSTS[d1][:2])} labels {l1}',
            'c2': f'{d2} {rp(HOSTS[d2][:len(l2)])} labels {l2}', 'call': 'sf.Series.from_overlay((c0, c1, c2), index=index)'}
    tags = {'finding': 'C07-overlay-timedelta'} if k == 'm' else {}
    na_arr = np.full(4, np.datetime64('NaT'), dtype=c0.dtype) if k == 'M' else None
    try:
        out = sf.Series.from_overlay((sf.Series(c0, index=[10, 11]), sf.Series(c1, index=l1), sf.Series(c2, index=l2)), index=idx)
        cells, used1, used2 = [], [], []
        for i in idx:
            if i in l1 and not isna(c1[l1.index(i)]):
                cells += from_arr(c1, [l1.index(i)])
                used1.append(l1.index(i))
            elif i in l2 and not isna(c2[l2.index(i)]):
                cells += from_arr(c2, [l2.index(i)])
                used2.append(l2.index(i))
            elif i in l1:
                cells += from_arr(c1, [l1.index(i)])      # a missing value of c1 under a label c2 does not have / also misses
                used1.append(l1.index(i))
            elif i in l2:
                cells += from_arr(c2, [l2.index(i)])
                used2.append(l2.index(i))
            else:
                cells += from_arr(na_arr, [0]) if k == 'M' else from_elem(na)
        cols = [Col(None, cells, out.values)]
        # the first container reindexed onto the index is an ARRAY of its missing marker: a datetime64 one goes through astype(object) later
        sources = [A(c1[used1]), A(c2[used2]), A(na_arr) if k == 'M' else E(na)]
    except Exception as e:  # noqa
        cols, sources = e, []
    return mk_case(ctx, 'api:fillna-partial', 'from_overlay_disjoint_first', desc, cols, sources, tags=tags)


def fillna_partial_cases(ctx):
    for rk in RECEIVERS:
        for fd in FILLNA_FIXED:
            for lk in FILL_LABELS:
                c = fillna_series_case(ctx, rk, fd, lk)
                if c is not None:
                    yield c
    grid = [(rk, fd, lk) for rk in RECEIVERS for fd in HOSTS_FRAME for lk in FILL_LABELS]
    for rk, fd, lk in (grid if ctx.tier == 'thorough' else ctx.rng.sample(grid, ctx.n(30, 0))):
        c = fillna_series_case(ctx, rk, fd, lk)
        if c is not None:
            yield c
    firsts = ['int64', 'bool', '<U1', 'float64', 'M8[D]/full', 'm8[D]/full', 'object']
    ogrid = [(d0, d1, d2, l2k) for d0 in firsts for d1 in HOSTS_FRAME for d2 in ('int8', 'bool', '<U4', 'float64', 'm8[D]/full', 'uint64') for l2k in ('c2-some', 'c2-few')]
    fixed = [(d0, d1, 'int8', 'c2-few') for d0 in ('int64', '<U1', 'bool') for d1 in ('int8', 'int64', 'bool', '<U1', 'S4', 'uint8', 'm8[D]/full')]
    for d0, d1, d2, l2k in fixed + (ogrid if ctx.tier == 'thorough' else ctx.rng.sample(ogrid, ctx.n(40, 0))):
        c = overlay_case(ctx, d0, d1, d2, l2k)
        if c is not None:
            yield c

# ------------------------------------------------------------------------------------------- FrameGO grown column by column
def p_grown(ds):
    return f'(PGrown {dt(ds[0])} {lit.lst([dt(d) for d in ds[1:]])})'


def grow_setitem(arrs):
    g = _sf().FrameGO(index=range(len(arrs[0])))
    for j, a in enumerate(arrs):
        g[f'c{j}'] = a
    return g


def grow_extend_series(arrs):
    sf = _sf()
    g = sf.FrameGO.from_items((('c0', arrs[0]),))
    for j, a in enumerate(arrs[1:], 1):
        g.extend(sf.Series(a, name=f'c{j}'))
    return g


def grow_extend_frame(arrs):
    sf = _sf()
    g = sf.FrameGO.from_items((('c0', arrs[0]),))
    g.extend(sf.Frame.from_items([(f'c{j}', a) for j, a in enumerate(arrs[1:], 1)]))
    return g


def grow_extend_items(arrs):
    g = _sf().FrameGO.from_items((('c0', arrs[0]),))
    g.extend_items([(f'c{j}', a) for j, a in enumerate(arrs[1:], 1)])
    return g


GROW_METHODS = [grow_setitem, grow_extend_series, grow_extend_frame, grow_extend_items]


def _obj_array(xs):
    o = np.empty(len(xs), dtype=object)
    for i, x in enumerate(xs):
        o[i] = x
    return o


def grown_case(ctx, method, hds):
    '''A FrameGO grown block by block, then every row-consolidation route.  Routes through the cached TypeBlocks._row_dtype
    (values, iter_array, iter_series, transpose) follow plan PGrown; iloc[row] re-resolves the block dtypes (PIterDt);
    iter_tuple / to_pairs hand out elements (S only).'''
    arrs = [host(hd) for hd in hds]
    if any(excluded_pair(x.dtype.kind, y.dtype.kind) for x in arrs for y in arrs):
        return None
    ds = [a.dtype for a in arrs]
    desc = {'grown_by': method.__name__, 'columns': {f'c{j}': f'{hd} {rp(HOSTS[hd])}' for j, hd in enumerate(hds)}}
    n = len(arrs[0])
    row = lambda i: sum((from_arr(a, [i]) for a in arrs), [])
    try:
        g = method(arrs)
        pg, pi = p_grown(ds), p_iterdt(ds)
        cols = []
        v = g.values
        cols += [Col(pg, from_arr(a), v[:, j]) for j, a in enumerate(arrs)]
        cols += [Col(pg, row(i), r) for i, r in enumerate(g.iter_array(axis=1))]
        cols += [Col(pg, row(i), sr.values) for i, sr in enumerate(g.iter_series(axis=1)) if i == n - 1]
        t = g.transpose()
        cols += [Col(pg, row(i), t[i].values) for i in range(n)]
        cols += [Col(pi, row(1), g.iloc[1].values)]
        cols += [Col(None, row(i), _obj_array(tp)) for i, tp in enumerate(g.iter_tuple(axis=1)) if i == 0]
        cols += [Col(None, row(n - 1), _obj_array([pair[1] for pair in g.to_pairs(1)[n - 1][1]]))]
        cols += [keep_col(a, g[f'c{j}'].values) for j, a in enumerate(arrs)]
    except Exception as e:  # noqa
        cols = e
    # the cached row dtype is object as soon as two blocks differ: every time column then goes through astype(object)
    sources = [A(a) for a in arrs] + ([E(None)] if len({str(d) for d in ds}) > 1 else [])
    return mk_case(ctx, 'api:framego-grown', method.__name__, desc, cols, sources, nontrivial=len({str(d) for d in ds}) > 1)


# same scalar class, different width / unit, the narrower or coarser one FIRST (and the reverse)
GROWN_SAME_CLASS = [('<U1', '<U4'), ('S1', 'S4'), ('M8[Y]/full', 'M8[D]/full'), ('M8[D]/full', 'M8[ns]/full'), ('M8[s]/full', 'M8[us]/full'),
                    ('m8[D]/full', 'm8[us]/full'), ('m8[D]/full', 'm8[ns]/full'), ('m8[W]', 'm8[s]'), ('int8', 'int64'), ('uint8', 'uint64'),
                    ('float32', 'float64'), ('float16', 'float32'), ('complex64', 'complex128'), ('int32', 'float64'), ('bool', 'int8')]


def grown_cases(ctx):
    fixed = []
    for x, y in GROWN_SAME_CLASS:
        fixed += [(x, y), (y, x), (x, y, x), (x, x, y)]
    pairs = [(x, y) for x in HOSTS for y in HOSTS]
    for k, method in enumerate(GROW_METHODS):
        for hds in fixed:
            c = grown_case(ctx, method, hds)
            if c is not None:
                yield c
        if ctx.tier == 'thorough':
            sel = pairs if k == 0 else [p for i, p in enumerate(pairs) if i % 4 == k]
            sel = sel + [(x, y, z) for (x, y) in ctx.rng.sample(pairs, 150) for z in ctx.rng.sample(list(HOSTS), 1)]
        else:
            sel = ctx.rng.sample(pairs, ctx.n(25, 0)) + [(x, y, z) for (x, y) in ctx.rng.sample(pairs, ctx.n(8, 0)) for z in ctx.rng.sample(list(HOSTS), 1)]
        for hds in sel:
            c = grown_case(ctx, method, hds)
            if c is not None:
                yield c

# ------------------------------------------------------------------------------------------- iterables -> array
ITER_ELEMS = [True, False, 0, 1, -1, 300, 2**53 + 1, 10**15, 10**15 + 1, 2**63 - 1, 2**63, 2**63 + 1, 2**64, -2**63 - 1,
              1.5, 0.1, float('nan'), 2.0**60, 1 + 2j, 'a', 'abc', '', b'a', b'abc', None, (1, 'a'),
              np.int8(3), np.uint8(200), np.int64(2**53 + 1), np.uint64(2**64 - 1), np.float32(1.5), np.float16(1.5), np.float64(0.1),
              np.complex64(1 + 2j), np.str_('xy'), np.bytes_(b'xy'), np.bool_(True)]


def _cls(x):
    if isinstance(x, (np.datetime64, np.timedelta64, datetime.date, datetime.timedelta)):
        return 'time'
    if isinstance(x, (bool, np.bool_)):
        return 'bool'
    if isinstance(x, (int, np.integer)):
        return 'int'
    if isinstance(x, (float, np.floating, complex, np.complexfloating)):
        return 'inexact'
    if isinstance(x, (str, np.str_)):
        return 'str'
    if isinstance(x, (bytes, np.bytes_)):
        return 'bytes'
    if x is None:
        return 'none'
    return 'tuple'


def _is_time(x):
    return isinstance(x, (np.datetime64, np.timedelta64, datetime.date, datetime.timedelta))


def iter_plan(xs):
    '''NumPy's discovery over datetime64/timedelta64 mixed with other kinds is outside the oracle model: S only.'''
    kinds = {elem_np_dtype(x).kind for x in xs}
    if any(_is_time(x) for x in xs) and len(kinds) > 1:
        return None
    return p_iter(xs)


def iter_finding(xs):
    '''Finding classes of util.prepare_iter_for_array, from the element classes only.'''
    if any(isinstance(x, np.timedelta64) for x in xs):
        if any(isinstance(x, np.datetime64) or _cls(x) in ('int', 'bool') for x in xs) \
                and not any(_cls(x) in ('str', 'none', 'tuple') for x in xs):
            return 'C07-iter-time'
    if any(_is_time(x) for x in xs):
        if all(isinstance(x, np.datetime64) for x in xs) and 'C07-datetime-week' in findings_of([E(x) for x in xs]):
            return 'C07-datetime-week'      # NumPy's discovery promotes datetime64[Y|M] with [W] to [W] as np.result_type does
        return None
    cl = {_cls(x) for x in xs}
    if 'tuple' in cl or 'none' in cl or ('str' in cl and len(cl - {'bytes'}) > 1):
        return None        # the library (or NumPy, for None) chooses object
    if 'bytes' in cl and cl - {'bytes', 'str'}:
        return 'C07-iter-bytes'
    if 'bool' in cl and cl & {'int', 'inexact'}:
        return 'C07-iter-bool'
    eds = [elem_np_dtype(x) for x in xs]
    if any(d.kind == 'O' for d in eds):
        return None        # an int outside uint64: NumPy chooses object
    victim = any(_int_victim(int(x)) for x in xs if _cls(x) == 'int')
    to_float = any(d.kind in 'fc' for d in eds) or (any(d == np.uint64 for d in eds) and any(d.kind == 'i' for d in eds))
    forced_object = any(type(x) in (float, complex) for x in xs) and any(type(x) is int and abs(x) > 10**15 for x in xs)
    if victim and to_float and not forced_object:
        return 'C07-iter-bigint'
    return None


def iop_series(xs):
    return _sf().Series(xs).values


def iop_index(xs):
    return _sf().Index(xs).values


def iop_records(xs):
    return _sf().Frame.from_records([(x, 0) for x in xs])[0].values


def iop_dict_records(xs):
    return _sf().Frame.from_dict_records([{'k': x} for x in xs])['k'].values


def iop_items(xs):
    return _sf().Series.from_items(enumerate(xs)).values


def iop_series_generator(xs):
    return _sf().Series(x for x in xs).values


def iop_from_elements(xs):
    return _sf().Frame.from_elements(list(xs), index=range(len(xs)), columns=('x',))['x'].values


def iop_iter_element_apply(xs):
    return _sf().Series(range(len(xs))).iter_element().apply(lambda i: xs[i]).values


def iop_records_generator(xs):
    return _sf().Frame.from_records(((x, 0) for x in xs), columns=('k', 'n'))['k'].values


def iop_records_items(xs):
    return _sf().Frame.from_records_items((i, (x, 0)) for i, x in enumerate(xs))[0].values


def iop_series_from_dict(xs):
    return _sf().Series.from_dict({i: x for i, x in enumerate(xs)}).values


def iop_dict_records_items(xs):
    return _sf().Frame.from_dict_records_items((i, {'k': x}) for i, x in enumerate(xs))['k'].values


def iop_go_setitem_list(xs):
    g = _sf().FrameGO(index=range(len(xs)))
    g['n'] = list(xs)
    return g['n'].values


ITER_OPS = [iop_series, iop_index, iop_records, iop_dict_records, iop_items, iop_series_from_dict, iop_dict_records_items, iop_go_setitem_list, iop_series_generator, iop_from_elements, iop_iter_element_apply,
            iop_records_generator, iop_records_items]


def iter_case(ctx, op, xs):
    cl = {_cls(x) for x in xs}
    if {'str', 'bytes'} <= cl:
        return None
    desc = {'values': rp(xs), 'types': [type(x).__name__ for x in xs]}
    tags = {}
    f = iter_finding(xs)
    if f:
        tags['finding'] = f
    try:
        obs = op(list(xs))
        cols = [Col(iter_plan(xs), [f'(FromElem {elem(x)})' for x in xs], obs)]
    except Exception as e:  # noqa
        cols = e
    return mk_case(ctx, 'api:iterable', op.__name__[4:], desc, cols, [], tags=tags, nontrivial=len(cl) > 1 or len({type(x) for x in xs}) > 1)


def iter_cases(ctx):
    pairs = [(x, y) for x in ITER_ELEMS for y in ITER_ELEMS]
    triples = [(x, y, z) for x in ITER_ELEMS[::3] for y in ITER_ELEMS[1::3] for z in ITER_ELEMS[2::3]]
    for k, op in enumerate(ITER_OPS):
        if ctx.tier == 'thorough':
            sel = pairs + triples if k == 0 else pairs
        else:
            sel = ctx.rng.sample(pairs + triples, min(len(pairs) + len(triples), ctx.n(300 if k == 0 else 30, 0)))
        for xs in sel:
            if op is iop_index:
                try:
                    if len(set(xs)) != len(xs) or any(isinstance(x, float) and x != x for x in xs):
                        continue
                except TypeError:
                    continue
            c = iter_case(ctx, op, xs)
            if c is not None:
                yield c


# ------------------------------------------------------------------------------------------- kernels
GRID = ['bool', 'int8', 'int16', 'int32', 'int64', 'uint8', 'uint16', 'uint32', 'uint64', 'float16', 'float32', 'float64', 'float128',
        'complex64', 'complex128', 'complex256', '<U1', '<U2', '<U5', '<U16', 'S1', 'S2', 'S5', 'S16',
        'M8', 'M8[Y]', 'M8[M]', 'M8[W]', 'M8[D]', 'M8[h]', 'M8[m]', 'M8[s]', 'M8[ms]', 'M8[us]', 'M8[ns]',
        'm8', 'm8[Y]', 'm8[M]', 'm8[W]', 'm8[D]', 'm8[h]', 'm8[m]', 'm8[s]', 'm8[ms]', 'm8[us]', 'm8[ns]', 'object']


def _pv_call(fn, arg):
    # lit.pv tests np.integer before np.timedelta64 (a subclass of it): print the timedelta constant here
    try:
        v = fn(arg)
    except Exception as e:  # noqa
        return f'(PErr {lit.s(type(e).__name__)})'
    if isinstance(v, np.timedelta64):
        if np.isnat(v) or v != np.timedelta64(0) or np.datetime_data(v.dtype)[0] != 'generic':
            raise ValueError(f'no pv literal for {v!r}')
        return '(PConst "td0")'
    return lit.pv(v)


def kernel_cases(ctx):
    from static_frame.core import util
    grid = [np.dtype(g) for g in GRID]
    for d1 in grid:
        for d2 in grid:
            try:
                out = f'(PDtype {dt(util.resolve_dtype(d1, d2))})'
            except Exception as e:  # noqa
                out = f'(PErr {lit.s(type(e).__name__)})'
            ctx.count('kernel:resolve_dtype')
            yield Case('kernel:resolve_dtype', {'call': 'util.resolve_dtype', 'dt1': str(d1), 'dt2': str(d2), 'observed': out},
                       m=f'pv_eqb (resolve_dtype (PDtype {dt(d1)}) (PDtype {dt(d2)})) {out} && pv_eqb (PDtype (resolve {dt(d1)} {dt(d2)})) {out}',
                       tags={'kernel': 'resolve_dtype'}, nontrivial=d1 != d2)
    for x in FILLS + ITER_ELEMS:
        try:
            obs = util.dtype_from_element(x)
            lit_e = elem(x)
        except Exception:  # noqa
            continue
        ctx.count('kernel:dtype_from_element')
        yield Case('kernel:dtype_from_element', {'call': 'util.dtype_from_element', 'element': rp(x), 'type': type(x).__name__, 'observed': str(obs)},
                   m=f'dtype_eqb (elem_dtype {lit_e}) {dt(obs)}', tags={'kernel': 'dtype_from_element'})
    for d in grid:
        if d.kind in 'Mm' and np.datetime_data(d)[0] == 'generic':
            continue
        for fn, arg, coq in ((util.dtype_to_fill_value, d, f'dtype_to_fill_value (PDtype {dt(d)})'),
                             (util.dtype_kind_to_na, d.kind, f'dtype_kind_to_na (PStr {lit.s(d.kind)})')):
            out = _pv_call(fn, arg)
            ctx.count('kernel:fill_value')
            yield Case('kernel:fill_value', {'call': fn.__name__, 'arg': str(arg), 'observed': out}, m=f'pv_eqb ({coq}) {out}',
                       tags={'kernel': fn.__name__})
    # n-ary loops on dtype lists
    n = ctx.n(200, 3000)
    for _ in range(n):
        ds = [grid[ctx.rng.randrange(len(grid))] for _ in range(ctx.rng.randint(2, 4))]
        if any(excluded_pair(x.kind, y.kind) for x in ds for y in ds):
            continue
        try:
            it = util.resolve_dtype_iter(iter(ds))
            cc = util.concat_resolved([np.empty(0, dtype=x) for x in ds]).dtype
        except Exception:  # noqa
            continue
        ctx.count('kernel:nary')
        yield Case('kernel:nary', {'call': 'util.resolve_dtype_iter / util.concat_resolved', 'dtypes': [str(x) for x in ds], 'observed': [str(it), str(cc)]},
                   m=f'M_dtype_check {p_iterdt(ds)} {dt(it)} && M_dtype_check {p_concat(ds)} {dt(cc)}', tags={'kernel': 'nary'})
    # the flag loop of prepare_iter_for_array
    pool = ITER_ELEMS
    for _ in range(ctx.n(200, 3000)):
        xs = [pool[ctx.rng.randrange(len(pool))] for _ in range(ctx.rng.randint(1, 4))]
        resolved, has_tuple, _v = util.prepare_iter_for_array(list(xs))
        ctx.count('kernel:prepare_iter')
        yield Case('kernel:prepare_iter', {'call': 'util.prepare_iter_for_array', 'values': rp(xs), 'observed': [str(resolved), has_tuple]},
                   m=f'Bool.eqb (f_obj (iter_flags {lit.lst([elem(x) for x in xs])})) {lit.b(resolved is object)}', tags={'kernel': 'prepare_iter'})


def oracle_sweep(ctx):
    '''np.result_type against the hand oracle SF.Dtype.np_result_type on the whole grid; a mismatch is a machinery error.'''
    from .. import core
    grid = [np.dtype(g) for g in GRID]
    cs = []
    for d1 in grid:
        for d2 in grid:
            k1, k2 = d1.kind, d2.kind
            num = 'biufc'
            if not ((k1 in num and k2 in num) or (k1 in 'US' and k2 in 'US') or (k1 == k2 and k1 in 'Mm')):
                continue
            try:
                out = f'(Ok {dt(np.result_type(d1, d2))})'
            except TypeError:
                out = '(Err "TypeError")'
            c = Case('oracle:np_result_type', {'d1': str(d1), 'd2': str(d2), 'numpy': out}, m=f'res_eqb dtype_eqb (np_result_type {dt(d1)} {dt(d2)}) {out}')
            c.cid = len(cs)
            cs.append(c)
    fm, _ = core.eval_cases(ID + 'or', IMPORTS, cs)
    if fm:
        bad = [cs[i].desc for i in sorted(fm)[:5]]
        raise core.MachineryError(f'oracle np_result_type disagrees with NumPy on {len(fm)} dtype pairs, e.g. {bad}')
    ctx.count('oracle:np_result_type:pairs', )
    ctx.dist['oracle:np_result_type:pairs'] = len(cs)


def witness_cases(ctx):
    '''One fixed case per known finding (run first, every run): a listed finding that stops reproducing is reported.'''
    two_d = ((2, True), (1, False))
    cs = [elem_case(ctx, 'corpus:witness', op_s_reindex, 'int64', 1.5),
          elem_case(ctx, 'corpus:witness', op_s_reindex, 'M8[M]', np.datetime64('2020-01-02', 'W')),
          elem_case(ctx, 'corpus:witness', op_s_reindex, 'M8[ns]', 'a'),
          frame_elem_case(ctx, fop_assign_bloc, 'int32', 'a', two_d),
          iter_case(ctx, iop_series, (True, 2)),
          iter_case(ctx, iop_series, (b'a', 1)),
          iter_case(ctx, iop_series, (2**53 + 1, np.float64(1.5))),
          iter_case(ctx, iop_series, (np.timedelta64(1, 'Y'), 0)),
          arr_case(ctx, 'corpus:witness', op_s_overlay_union, 'm8[ns]/full', 'm8[ns]/full'),
          arr_case(ctx, 'corpus:witness', op_idxgo_extend, 'm8[Y]', 'm8[M]')]
    for c in cs:
        c.kind = 'corpus:witness'
        yield c


def cases(ctx):
    for c in _cases(ctx):
        yield c
        comp = _COMPANIONS.pop(id(c), None)
        if comp is not None:
            ctx.count(comp.kind)
            yield comp


def _cases(ctx):
    oracle_sweep(ctx)
    yield from witness_cases(ctx)
    yield from kernel_cases(ctx)
    yield from series_elem_cases(ctx)
    yield from series_arr_cases(ctx)
    yield from frame_elem_cases(ctx)
    yield from frame_arr_cases(ctx)
    yield from grown_cases(ctx)
    yield from fillna_partial_cases(ctx)
    yield from ext_cases(ctx)
    yield from pivot_cases(ctx)
    yield from assign_frame_cases(ctx)
    yield from directional_cases(ctx)
    yield from iter_cases(ctx)
