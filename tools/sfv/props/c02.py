'''C02 -- Index: unique labels, exact label-to-position bijection.'''
import datetime
import itertools

import numpy as np

from .. import lit
from ..core import Case

ID = 'C02'
MANIFEST = {
    'text': ('Coq theorems (Properties/C02.v) about an executable model M of static_frame/core/index.py: '
             'C02_index_refines (Index(labels) observed through values/iter/reversed/len/positions/iloc/loc_to_iloc/in equals the '
             'specification "the index is the label list", rejection of non-unique labels included, for every label list and probe list), '
             'C02_index_accepts_iff, C02_index_bijection (lookup of the i-th label is i and conversely, membership exact). '
             'API-level correspondence of M and S with the implementation on generated label lists.'),
    'note': ('trusted: Coq kernel, hand-written model coq/SF/IndexBij.v (tied to /repo by the correspondence cases of each run), '
             'AutoMap/FrozenAutoMap modelled as an insertion-ordered map that raises on a duplicate (oracle, swept against the real class), '
             'label canonicalisation (True == 1 == 1.0) done inside Coq by SF.IndexBijVal.canon, harness. NaN labels excluded by the property.'),
    'technique': 'refinement proof M = S + differential correspondence',
}
PROPERTY_FILES = ['Properties/C02.v']
REFUTED_FILES = []
MODEL_FILES = ['SF/IndexBij.v', 'SF/IndexBijVal.v']
IMPORTS = 'Require Import SF.Prelude SF.Dtype SF.Value SF.PySlice SF.IndexBij SF.IndexBijVal.'
RULE = ('api strata: label lists (ints, strs, bools, exact floats, tuples, dates, mixed; empty; duplicates) through the public constructors; '
        'each index is observed completely (values, iteration, reversed, len, positions, iloc[i], loc_to_iloc and `in` for held and absent probes); '
        'a case is non-trivial when it has >= 2 labels or is rejected; distinct = distinct (route, labels, probes)')
ASSUMPTIONS = ['automap.FrozenAutoMap/AutoMap: insertion-ordered hash map label -> position, ValueError on a duplicate key (hash/== of Python)',
               'Python equality of labels = structural equality of canonical forms (bool -> int, integral float -> int, tuples elementwise); NaN excluded']
TRUSTED = []
EXHAUSTIVE = {'quick': False, 'thorough': False}
TRANSLATED = []


# ----------------------------------------------------------------------------- literals
def vlit(v):
    if isinstance(v, (float, np.floating)) and v != v:
        raise ValueError('NaN label outside C02')
    return lit.val(v)


def vl(items):
    return lit.lst([vlit(x) for x in items])


def rz(fn):
    '''Run fn -> `(Ok z)` for an integer result, `(Err "cls")` for an exception.'''
    try:
        out = fn()
    except Exception as e:  # noqa
        return f'(Err {lit.s(lit.err_class(e))})'
    if isinstance(out, (int, np.integer)) and not isinstance(out, (bool, np.bool_)):
        return f'(Ok {lit.z(out)})'
    return f'(Err {lit.s("NotAnInt:" + type(out).__name__)})'


def arr_items(a):
    return list(a) if a.dtype.kind in 'Mm' else a.tolist()


def iter_items(it):
    out = []
    for x in it:
        out.append(x.item() if isinstance(x, np.generic) and not isinstance(x, (np.datetime64, np.timedelta64)) else x)
    return out


def obs_lit(ix, probes):
    '''Observe an index completely. probes: python keys.'''
    n = len(ix)
    values = arr_items(ix.values)
    at = iter_items(ix.iloc[i] for i in range(n))
    return ('(mk_obs ' + ' '.join([
        vl(values), vl(iter_items(iter(ix))), vl(iter_items(reversed(ix))), lit.z(n),
        lit.lst([lit.z(p) for p in ix.positions.tolist()]), vl(at),
        lit.lst([rz(lambda k=k: ix.loc_to_iloc(k)) for k in probes]),
        lit.lst([lit.b(bool(ix.__contains__(k))) for k in probes]),
    ]) + ')')


def robs_lit(build, probes):
    try:
        ix = build()
    except Exception as e:  # noqa
        return f'(Err {lit.s(lit.err_class(e))})', None
    return f'(Ok {obs_lit(ix, probes)})', ix


# ----------------------------------------------------------------------------- label pools
D0 = datetime.date(2020, 1, 1)
POOLS = {
    'int': [0, 1, 2, 3, 5, 8, -1, -7, 10, 100, 2 ** 40],
    'str': ['a', 'b', 'c', 'ab', '', 'A', 'x y', '0'],
    'bool': [True, False],
    'float': [0.5, 1.5, -2.25, 2.0, 0.0, 1e3, 0.125],
    'tuple': [(0, 1), (1, 0), ('a', 1), ('a', 2), (0,), (0, 1, 2), ((0, 1), 2)],
    'date': [D0 + datetime.timedelta(days=i) for i in (0, 1, 2, 31, 366)],
    'npint': [np.int64(4), np.int32(6), np.int64(0)],
    'none': [None],
}
ABSENT = [-3, 7, 'zz', 2.5, (9, 9), None, False, 1.0, D0 - datetime.timedelta(days=5)]


def draw_labels(rng, kind, n, dup):
    if kind == 'mixed':
        pool = POOLS['int'][:5] + POOLS['str'][:4] + POOLS['tuple'][:3] + POOLS['none'] + POOLS['date'][:2] + [True, 0.5]
    else:
        pool = POOLS[kind]
    if dup:
        return [rng.choice(pool) for _ in range(n)]
    pool = list(pool)
    rng.shuffle(pool)
    # distinct under Python equality
    out = []
    for x in pool:
        if len(out) == n:
            break
        if not any(x == y for y in out):
            out.append(x)
    return out


def labels_ok(labels):
    '''Stay inside the quantifier / the representable literals.'''
    kinds = {type(x) for x in labels}
    if str in kinds and bytes in kinds:
        return False
    return True


def routes():
    import static_frame as sf
    return {
        'Index': lambda ls: sf.Index(ls),
        'IndexGO': lambda ls: sf.IndexGO(ls),
        'Index.from_labels': lambda ls: sf.Index.from_labels(ls),
        'Index(generator)': lambda ls: sf.Index(x for x in ls),
        'Index(tuple)': lambda ls: sf.Index(tuple(ls)),
        'Index(Index)': lambda ls: sf.Index(sf.Index(ls)),
        'Index(IndexGO)': lambda ls: sf.Index(sf.IndexGO(ls)),
        'IndexGO(Index)': lambda ls: sf.IndexGO(sf.Index(ls)),
        'Series.index': lambda ls: sf.Series(range(len(ls)), index=ls).index,
        'Frame.columns': lambda ls: sf.Frame.from_element(0, index=(0,), columns=ls).columns,
        'FrameGO.columns': lambda ls: sf.FrameGO.from_element(0, index=(0,), columns=ls).columns,
    }


def index_case(ctx, route, build, labels, probes, stratum):
    obs, ix = robs_lit(lambda: build(labels), probes)
    L, P = vl(labels), vl(probes)
    ctx.count(f'route:{route}', f'n:{min(len(labels), 9)}', 'accepted' if ix is not None else 'rejected')
    return Case(stratum,
                {'route': route, 'labels': repr(labels), 'probes': repr(probes), 'observed': obs[:400]},
                m=f'chk_M_index {L} {P} {obs}', s=f'chk_S_index {L} {P} {obs}',
                tags={'route': route}, nontrivial=len(labels) >= 2 or ix is None)


def construct_small_cases(ctx):
    R = routes()
    alphabet = [0, 1, True, 1.0, 'a', (0, 1)]
    probes = [0, 1, 2, -1, 'a', 'b', (0, 1), True, 1.0, 0.5, None]
    maxlen = 2 if ctx.tier == 'quick' else 3
    names = ['Index', 'IndexGO'] if ctx.tier == 'quick' else ['Index', 'IndexGO', 'Index(generator)', 'Series.index']
    for n in range(0, maxlen + 1):
        for labels in itertools.product(alphabet, repeat=n):
            for name in names:
                yield index_case(ctx, name, R[name], list(labels), probes, 'api:construct-small')


def construct_random_cases(ctx):
    R = routes()
    names = sorted(R)
    kinds = ['int', 'str', 'bool', 'float', 'tuple', 'date', 'mixed', 'npint']
    for _ in range(ctx.n(150, 3000)):
        kind = ctx.rng.choice(kinds)
        n = ctx.rng.choice([0, 1, 2, 3, 4, 5, 6, 8, 12])
        dup = ctx.rng.random() < 0.3
        labels = draw_labels(ctx.rng, kind, n, dup)
        if not labels_ok(labels):
            continue
        probes = list(labels)
        ctx.rng.shuffle(probes)
        probes = probes[:6] + ctx.rng.sample(ABSENT, 3)
        name = ctx.rng.choice(names)
        ctx.count(f'kind:{kind}')
        yield index_case(ctx, name, R[name], labels, probes, 'api:construct-random')


def cases(ctx):
    yield from construct_small_cases(ctx)
    yield from construct_random_cases(ctx)
