'''C02 -- Index: unique labels, exact label-to-position bijection.'''
import datetime
import itertools
import json

import numpy as np

from .. import lit
from ..core import Case

ID = 'C02'
MANIFEST = {
    'text': ('Coq theorems (Properties/C02.v, all closed under the global context) about executable models M of static_frame/core/index.py, '
             'index_auto.py, index_hierarchy.py (from_labels) and index_level.py (from_level_data, leaf_loc_to_iloc, __contains__): '
             'C02_index_refines / C02_index_accepts_iff / C02_index_bijection (Index(labels) observed through values, iteration, reversed, len, '
             'positions, iloc, loc_to_iloc and `in` IS the label list; accepted iff labels pairwise distinct, else ErrorInitIndex; lookup of the '
             'i-th label is i and conversely) for every label list and probe list; C02_index_dtype_refines; C02_auto_bijection / C02_auto_refines (map-less '
             'auto-integer index; the guard auto_key_ok only excludes a non-integer-typed key equal to a held position, finding C02-auto-float-key); '
             'C02_go_history / C02_go_labels_laws / C02_go_observe (IndexGO incl. the auto-integer one: after ANY history of append / all-or-nothing extend / '
             'reader calls the state is a bijection holding the initial labels followed by the accepted values, outcome by outcome; the guard go_dom only '
             'excludes an extend carrying a float alias of a held position on a still map-less index, a consequence of finding C02-auto-float-key); C02_hier_refines / C02_hier_bijection (IndexHierarchy.from_labels: dict-tree walk with the shared '
             'observed_last list, levels with relative offsets, leaf_loc_to_iloc: accepted iff one depth >= 2, distinct and tree-ordered; then the '
             'table in the given order with exact lookups); C02_tree_order_is_contiguity; C02_level_drop_single_group (level_drop(1) is exact for one outermost '
             'group; two or more: Refuted/C02_level_drop_offsets.v); C02_derive_select/drop/roll (label computations of the derivations keep an index an index). '
             'Refuted/C02_*.v: 2 concrete witnesses (one file per unrepaired finding) where the faithful model (= the unchanged code) leaves the property (known/C02.jsonl). '
             'Gen/Gen_c02.v: error classes and statement-order facts re-read from the AST of /repo on every run and used by M. '
             'API-level correspondence of M and of S with the implementation: every public construction route x label kinds, exhaustive small label '
             'sequences / append histories, derivations (selection, drop, roll, relabel, sort, set operations, astype, copy/pickle, level_add/flat/'
             'level_drop), list and slice keys, datetime-typed indices and their GO forms, hierarchical tables incl. non-tree orders and duplicates, '
             'IndexHierarchyGO.append inside the tree-order class, and an oracle sweep of automap.AutoMap/FrozenAutoMap.'),
    'note': ('trusted: Coq kernel; hand-written models coq/SF/IndexBij.v, IxTree.v (tied to /repo by the correspondence cases of each run and by the '
             'regenerated constants of Gen/Gen_c02.v); the specification side (SF/IndexBijSpec*.v, IxTreeSpec*.v) has no generated dependency and is still '
             'evaluated when the model is broken; AutoMap/FrozenAutoMap modelled as an insertion-ordered map that raises on a duplicate (oracle, swept each run); '
             'NumPy indexing of the cached positions array modelled by positions_getitem; label canonicalisation under Python equality (True == 1 == 1.0) done '
             'inside Coq by canon; date strings converted by NumPy in the harness. '
             'Covered by correspondence with S only (results are built through the modelled constructors; no separate M): derivations (iloc/loc/getitem by '
             'slice, list, array, mask, ILoc; head/tail/sample/fillna; drop by list, mask, slice; roll, relabel, sort, astype incl. datetime64, set operations '
             'with several operands, copy/deepcopy/pickle/rename) from mapped AND auto-integer sources, from_date_range / from_year_month_range / from_year_range, '
             'typed-index conversions, Index(IndexHierarchy / Series / Frame), static indices taken from grow-only ones before further growth, hierarchical '
             'from_product / from_tree / from_index_items / level_add / from_labels(reorder_for_hierarchy, continuation_token, index_constructors) / '
             'from_labels_delimited / from_names, hierarchical selection (getitem, loc by labels, HLoc, label slices, Frame column selection and drop), sort, '
             'rehierarch, relabel, astype, level_drop(+-), set operations, IndexHierarchyGO.append/extend histories (incl. zero-length start, cache realised or '
             'not, then derived through the constructor routes); python-side view consistency (iter_label, values_at_depth, label_widths_at_depth, unique, shape). '
             'NOT covered: NaN labels, from_pandas/to_pandas, loc_is_iloc=True passed by the caller, datetime keys of another unit and datetime label slices '
             '(LocMap datetime branches), partial_selection / offset arguments of the private _loc_to_iloc, searchsorted, isin/equals, binary/unary operators on '
             'labels, via_str/via_dt, to_frame/to_series, display/HTML; the dtype resolution of the labels ARRAY of a grow-only index is not part of M '
             '(finding C02-go-bigint-float-coercion is observed only); level_drop with a negative count that reaches depth 1 de-duplicates by design and is only '
             'checked for self-consistency.'),
    'technique': 'refinement proofs M = S (flat, grow-only histories, hierarchical construction) + differential correspondence + regenerated constants',
}
PROPERTY_FILES = ['Properties/C02.v']
REFUTED_FILES = ['Refuted/C02_float_key.v', 'Refuted/C02_dtype_map.v', 'Refuted/C02_level_drop_offsets.v']
MODEL_FILES = ['SF/IndexBijSpec.v', 'SF/IndexBijSpecVal.v', 'SF/IxTreeSpec.v', 'SF/IxTreeSpecVal.v',      # specification side: no generated dependency
               'Gen/Gen_c02.v', 'SF/IndexBij.v', 'SF/IndexBijVal.v', 'SF/IxTree.v', 'SF/IxTreeVal.v']
IMPORTS = 'Require Import SF.Prelude SF.Dtype SF.Value SF.PySlice SF.IndexBij SF.IndexBijVal SF.IxTree SF.IxTreeVal.'
# when the model or its regenerated constants are broken, S is still evaluated (a concrete failing input can still be produced)
IMPORTS_SPEC_ONLY = 'Require Import SF.Prelude SF.Dtype SF.Value SF.PySlice SF.IndexBijSpec SF.IndexBijSpecVal SF.IxTreeSpec SF.IxTreeSpecVal.'
RULE = ('every case builds an index through the public interface and observes it COMPLETELY (values, iteration, reversed, len, positions, iloc[i], '
        'loc_to_iloc and `in` for held and absent probe keys, constructor / append outcome classes); M and S are evaluated in Coq on the same input. '
        'Exhaustive strata: all label sequences of length <= 2 (quick) / <= 3 (thorough) over {0, 1, True, 1.0, "a", (0,1)}; all append/reader histories '
        'of length <= 2 / <= 3 over a 6 / 10 value alphabet from 5 start states (mapped and auto-integer); all hierarchical tables of <= 3 / <= 4 rows over '
        '{a,b}x{1,2} and <= 2 / <= 3 rows over {a,b}x{x,y}x{1,2}; all auto-integer indices of n <= 4 / <= 7 with every key class; AutoMap on all lists of '
        'length <= 3 / <= 4 over 8 keys. Random strata: label kinds int/str/bool/float/tuple/date/mixed/numpy ints, sizes 0..12, 30% with duplicates, '
        '11 construction routes, derivations with malformed keys (duplicates, out of range, absent labels), tree-ordered tables with swaps / duplicates / '
        'shuffles. Non-trivial: >= 2 labels or a rejection; distinct = distinct (route, input, probes).')
ASSUMPTIONS = ['automap.FrozenAutoMap/AutoMap: insertion-ordered hash map label -> position, ValueError on a duplicate key (hash/== of Python); swept against the real classes each run',
               'Python equality/hash of labels = structural equality of canonical forms (bool -> int, integral float -> int, tuples elementwise); NaN excluded',
               'NumPy: arange(n)[k] for int k is bounds-checked with negative wrap-around, a bool or None index never raises, anything else raises IndexError',
               'np.datetime64(string, unit) is the meaning of a date string; same-unit keys only']
TRUSTED = ['tools/sfv/props/c02.py:generate (AST extractor of Gen/Gen_c02.v, fail closed)']
EXHAUSTIVE = {'quick': False, 'thorough': False}
TRANSLATED = []
GENERATED_FILES = ['Gen/Gen_c02.v']


# ----------------------------------------------------------------------------- generated constants
def generate(repo):
    '''Decisive facts of index.py / index_level.py read from the AST on every run (fail closed): the model M uses these
    constants, so the theorems of Properties/C02.v and the witnesses of Refuted/C02_*.v are re-checked against what the
    source says now.'''
    import ast
    import os

    def parse(rel):
        with open(os.path.join(repo, rel)) as f:
            return ast.parse(f.read())

    def find_class(tree, name):
        for n in tree.body:
            if isinstance(n, ast.ClassDef) and n.name == name:
                return n
        raise ValueError(f'class {name} not found')

    def find_func(cls, name):
        for n in cls.body:
            if isinstance(n, ast.FunctionDef) and n.name == name:
                return n
        raise ValueError(f'{cls.name}.{name} not found')

    def is_self_attr(node, attr):
        return isinstance(node, ast.Attribute) and node.attr == attr and isinstance(node.value, ast.Name) and node.value.id == 'self'

    def raised_class(stmt):
        if isinstance(stmt, ast.Raise) and isinstance(stmt.exc, ast.Call) and isinstance(stmt.exc.func, ast.Name):
            return stmt.exc.func.id
        raise ValueError('expected `raise Cls(...)`')

    def enum_of(cls_name):
        if cls_name not in lit.ERR_CLASSES:
            raise ValueError(f'exception class {cls_name} has no place in the error enum')
        return lit.ERR_CLASSES[cls_name]

    index_mod = parse('static_frame/core/index.py')
    # (1) Index.__init__: try: self._map = FrozenAutoMap(labels) ... except ValueError: pass; if self._map is None: raise X
    init = find_func(find_class(index_mod, 'Index'), '__init__')
    init_err = None
    for node in ast.walk(init):
        body = getattr(node, 'body', None)
        if not isinstance(body, list):
            continue
        for i, st in enumerate(body):
            if (isinstance(st, ast.Try) and len(st.handlers) == 1 and isinstance(st.handlers[0].type, ast.Name)
                    and st.handlers[0].type.id == 'ValueError'
                    and any(isinstance(b, ast.Assign) and is_self_attr(b.targets[0], '_map') for b in st.body)):
                if len(st.handlers[0].body) != 1 or not isinstance(st.handlers[0].body[0], ast.Pass):
                    raise ValueError('Index.__init__: the ValueError handler is no longer `pass`')
                nxt = body[i + 1]
                if not (isinstance(nxt, ast.If) and isinstance(nxt.test, ast.Compare) and is_self_attr(nxt.test.left, '_map')):
                    raise ValueError('Index.__init__: no `if self._map is None: raise` after the AutoMap construction')
                init_err = enum_of(raised_class(nxt.body[0]))
    if init_err is None:
        raise ValueError('Index.__init__: AutoMap construction not found')
    # (1b) are non-array labels converted to the requested dtype BEFORE the map is built ?
    i_mapblock = None
    for i, st in enumerate(init.body):
        if (isinstance(st, ast.If) and isinstance(st.test, ast.Compare) and is_self_attr(st.test.left, '_map')
                and any(isinstance(n, ast.Call) and isinstance(n.func, ast.Name) and n.func.id == 'FrozenAutoMap' for n in ast.walk(st))):
            i_mapblock = i
    if i_mapblock is None:
        raise ValueError('Index.__init__: the `if self._map is None:` block building the map is not a top-level statement any more')
    casts_first = any(isinstance(n, ast.Call) and isinstance(n.func, ast.Name) and n.func.id == 'iterable_to_array_1d'
                      and any(k.arg == 'dtype' for k in n.keywords)
                      for st in init.body[:i_mapblock] for n in ast.walk(st))
    # (2)(3) _IndexGOMixin.append
    app = find_func(find_class(index_mod, '_IndexGOMixin'), 'append')
    stmts = [s for s in app.body if not (isinstance(s, ast.Expr) and isinstance(s.value, ast.Constant))]
    first = stmts[0]
    if not (isinstance(first, ast.If) and isinstance(first.test, ast.Call) and is_self_attr(first.test.func, '__contains__')):
        raise ValueError('_IndexGOMixin.append no longer starts with the __contains__ test')
    append_err = enum_of(raised_class(first.body[0]))
    # where (in source order) is the promotion map AutoMap(...) constructed relative to the push onto _labels_mutable,
    # and which class does a failing construction surface as ?
    push_line = None
    for n in ast.walk(app):
        if (isinstance(n, ast.Call) and isinstance(n.func, ast.Attribute) and n.func.attr == 'append'
                and is_self_attr(n.func.value, '_labels_mutable')):
            if push_line is not None:
                raise ValueError('_IndexGOMixin.append: more than one push onto _labels_mutable')
            push_line = n.lineno
    map_calls = [n for n in ast.walk(app) if isinstance(n, ast.Call) and isinstance(n.func, ast.Name) and n.func.id == 'AutoMap']
    if push_line is None or len(map_calls) != 1:
        raise ValueError('_IndexGOMixin.append: push / single AutoMap promotion not found')
    mc = map_calls[0]
    if not any(is_self_attr(x, '_labels_mutable') for a in mc.args for x in ast.walk(a)):
        raise ValueError('_IndexGOMixin.append: the promotion map is no longer built from _labels_mutable')
    push_before_map = push_line < mc.lineno
    if push_before_map and not (len(mc.args) == 1 and is_self_attr(mc.args[0], '_labels_mutable')):
        raise ValueError('_IndexGOMixin.append: unexpected AutoMap argument after the push')
    if not push_before_map:
        # the map must be built from the labels PLUS the new value
        if not any(isinstance(x, ast.Name) and x.id == 'value' for a in mc.args for x in ast.walk(a)):
            raise ValueError('_IndexGOMixin.append: the early promotion map does not include the new value')
    promote_err = 'ValueError'
    for n in ast.walk(app):
        if isinstance(n, ast.Try) and any(x is mc for b in n.body for x in ast.walk(b)):
            hs = [h for h in n.handlers if isinstance(h.type, ast.Name) and h.type.id == 'ValueError']
            if len(hs) != 1:
                raise ValueError('_IndexGOMixin.append: unexpected handlers around the promotion map')
            promote_err = enum_of(raised_class(hs[0].body[0]))
    # (3a) _IndexGOMixin.extend: is there a validation loop (raising, not appending) before the loop that appends ?
    ext = find_func(find_class(index_mod, '_IndexGOMixin'), 'extend')
    loops = [s for s in ext.body if isinstance(s, ast.For)]

    def calls_self_append(node):
        return any(isinstance(n, ast.Call) and is_self_attr(n.func, 'append') for n in ast.walk(node))

    def raises(node):
        return any(isinstance(n, ast.Raise) for n in ast.walk(node))
    if len(loops) == 1 and calls_self_append(loops[0]) and not raises(loops[0]):
        extend_validates_first = False
    elif (len(loops) == 2 and raises(loops[0]) and not calls_self_append(loops[0]) and calls_self_append(loops[1])
          and any(isinstance(n, ast.Call) and is_self_attr(n.func, '__contains__') for n in ast.walk(loops[0]))):
        if enum_of(raised_class(next(n for n in ast.walk(loops[0]) if isinstance(n, ast.Raise)))) != append_err:
            raise ValueError('_IndexGOMixin.extend: the validation loop raises another class than append')
        extend_validates_first = True
    else:
        raise ValueError('_IndexGOMixin.extend: unexpected shape')
    # (3b) Index.loc_to_iloc on a map-less index: does it refresh the caches before reading self._positions ?
    l2i = find_func(find_class(index_mod, 'Index'), 'loc_to_iloc')
    l2i_stmts = [s for s in l2i.body if not (isinstance(s, ast.Expr) and isinstance(s.value, ast.Constant))]
    head = l2i_stmts[0]
    if not (isinstance(head, ast.If) and isinstance(head.test, ast.Compare) and is_self_attr(head.test.left, '_map')):
        raise ValueError('Index.loc_to_iloc no longer starts with `if self._map is None`')
    uses_positions = any(is_self_attr(n, '_positions') for n in ast.walk(head))
    if not uses_positions:
        raise ValueError('Index.loc_to_iloc: the map-less branch no longer reads self._positions')
    h0 = head.body[0]
    loc_to_iloc_recaches = (isinstance(h0, ast.If) and is_self_attr(h0.test, '_recache')
                            and any(isinstance(n, ast.Call) and is_self_attr(n.func, '_update_array_cache') for n in ast.walk(h0)))
    # (3c) ... and does it validate an element key against [0, len) itself (a `raise KeyError` that is not inside the
    #      try/except around self._positions[key]) ?
    def raises_keyerror_outside_try(stmts):
        for st in stmts:
            if isinstance(st, ast.Try):
                continue
            for n in ast.walk(st):
                if isinstance(n, ast.Raise) and isinstance(n.exc, ast.Call) and isinstance(n.exc.func, ast.Name) and n.exc.func.id == 'KeyError':
                    return True
        return False
    auto_lookup_validates = raises_keyerror_outside_try(head.body)
    # (4) IndexLevel.__contains__: what is returned once a leaf level is reached
    lvl_mod = parse('static_frame/core/index_level.py')
    cont = find_func(find_class(lvl_mod, 'IndexLevel'), '__contains__')
    loops = [n for n in cont.body if isinstance(n, ast.For)]
    if len(loops) != 1:
        raise ValueError('IndexLevel.__contains__: expected one for loop')
    last = loops[0].body[-1]
    if not isinstance(last, ast.Return):
        raise ValueError('IndexLevel.__contains__: loop body no longer ends with a return')
    if isinstance(last.value, ast.Constant) and last.value.value is True:
        leaf_checks_exhausted = False
    elif isinstance(last.value, (ast.Compare, ast.BoolOp)):
        leaf_checks_exhausted = True
    else:
        raise ValueError('IndexLevel.__contains__: unexpected return expression at the leaf level')
    b = lambda v: 'true' if v else 'false'
    text = ('(* GENERATED on every run by tools/sfv/props/c02.py:generate from the AST of static_frame/core/index.py\n'
            '   (Index.__init__, _IndexGOMixin.append) and index_level.py (IndexLevel.__contains__).  Do not edit. *)\n'
            'Require Import SF.Prelude.\n\n'
            '(* error class (harness enum) raised by Index.__init__ when AutoMap reports a duplicate *)\n'
            f'Definition gen_init_dup_error : string := {lit.s(init_err)}.\n'
            '(* Index(labels, dtype=d): non-array labels are converted to d before the label->position map is built *)\n'
            f'Definition gen_init_dtype_casts_first : bool := {b(casts_first)}.\n'
            '(* error class raised by IndexGO.append when the value is already contained *)\n'
            f'Definition gen_append_dup_error : string := {lit.s(append_err)}.\n'
            '(* IndexGO.append pushes the value onto _labels_mutable BEFORE AutoMap(self._labels_mutable) is built on promotion *)\n'
            f'Definition gen_go_push_before_map : bool := {b(push_before_map)}.\n'
            '(* error class surfaced when that construction finds a duplicate *)\n'
            f'Definition gen_go_promote_error : string := {lit.s(promote_err)}.\n'
            '(* IndexGO.extend validates every value (contained / repeated) before it appends any *)\n'
            f'Definition gen_extend_validates_first : bool := {b(extend_validates_first)}.\n'
            '(* Index.loc_to_iloc refreshes stale caches before reading self._positions on a map-less index *)\n'
            f'Definition gen_loc_to_iloc_recaches : bool := {b(loc_to_iloc_recaches)}.\n'
            '(* Index.loc_to_iloc on a map-less index validates an element key against [0, len) before returning it *)\n'
            f'Definition gen_auto_lookup_validates : bool := {b(auto_lookup_validates)}.\n'
            '(* IndexLevel.__contains__ checks that the key is exhausted when it reaches a leaf level *)\n'
            f'Definition gen_hier_contains_checks_exhausted : bool := {b(leaf_checks_exhausted)}.\n')
    return {'Gen/Gen_c02.v': text}


# ----------------------------------------------------------------------------- literals
def vlit(v):
    if isinstance(v, (float, np.floating)) and v != v:
        raise ValueError('NaN label outside C02')
    return lit.val(v)


def vl(items):
    return lit.lst([vlit(x) for x in items])


def rz(fn):
    '''Run fn -> `(Ok z)` for an integer result, `(Err "cls")` for an exception.'''
    try:
        out = fn()
    except Exception as e:  # noqa
        return f'(Err {lit.s(lit.err_class(e))})'
    # a bool result is Python-equal to the position 0/1 (the map-less path returns the key itself)
    if isinstance(out, (int, np.integer, bool, np.bool_)):
        return f'(Ok {lit.z(int(out))})'
    return '(Err "NotAPosition")'


def arr_items(a):
    return list(a) if a.dtype.kind in 'Mm' else a.tolist()


def iter_items(it):
    out = []
    for x in it:
        out.append(x.item() if isinstance(x, np.generic) and not isinstance(x, (np.datetime64, np.timedelta64)) else x)
    return out


def obs_lit(ix, probes):
    '''Observe an index completely. probes: python keys.'''
    n = len(ix)
    values = arr_items(ix.values)
    at = iter_items(ix.iloc[i] for i in range(n))
    return ('(mk_obs ' + ' '.join([
        vl(values), vl(iter_items(iter(ix))), vl(iter_items(reversed(ix))), lit.z(n),
        lit.lst([lit.z(p) for p in ix.positions.tolist()]), vl(at),
        lit.lst([rz(lambda k=k: ix.loc_to_iloc(k)) for k in probes]),
        lit.lst([lit.b(bool(ix.__contains__(k))) for k in probes]),
    ]) + ')')


class ReaderRaised(Exception):
    '''A reader (values / iteration / len / positions / iloc / loc_to_iloc / in) of an EXISTING index raised.'''


def reading(fn, *args):
    try:
        return fn(*args)
    except ReaderRaised:
        raise
    except Exception as e:  # noqa
        raise ReaderRaised(f'{type(e).__name__}: {str(e)[:120]}')


def robs_lit(build, probes):
    try:
        ix = build()
    except Exception as e:  # noqa
        return f'(Err {lit.s(lit.err_class(e))})', None
    return f'(Ok {reading(obs_lit, ix, probes)})', ix


# ----------------------------------------------------------------------------- label pools
D0 = datetime.date(2020, 1, 1)
POOLS = {
    'int': [0, 1, 2, 3, 5, 8, -1, -7, 10, 100, 2 ** 40],
    'str': ['a', 'b', 'c', 'ab', '', 'A', 'x y', '0'],
    'bool': [True, False],
    'float': [0.5, 1.5, -2.25, 2.0, 0.0, 1e3, 0.125],
    'tuple': [(0, 1), (1, 0), ('a', 1), ('a', 2), (0,), (0, 1, 2), ((0, 1), 2)],
    'date': [D0 + datetime.timedelta(days=i) for i in (0, 1, 2, 31, 366)],
    'npint': [np.int64(4), np.int32(6), np.int64(0)],
    'none': [None],
}
ABSENT = [-3, 7, 'zz', 2.5, (9, 9), None, False, 1.0, D0 - datetime.timedelta(days=5)]


def draw_labels(rng, kind, n, dup):
    if kind == 'mixed':
        pool = POOLS['int'][:5] + POOLS['str'][:4] + POOLS['tuple'][:3] + POOLS['none'] + POOLS['date'][:2] + [True, 0.5]
    else:
        pool = POOLS[kind]
    if dup:
        return [rng.choice(pool) for _ in range(n)]
    pool = list(pool)
    rng.shuffle(pool)
    # distinct under Python equality
    out = []
    for x in pool:
        if len(out) == n:
            break
        if not any(x == y for y in out):
            out.append(x)
    return out


def labels_ok(labels):
    '''Stay inside the quantifier / the representable literals.'''
    kinds = {type(x) for x in labels}
    if str in kinds and bytes in kinds:
        return False
    return True


def routes():
    import static_frame as sf
    return {
        'Index': lambda ls: sf.Index(ls),
        'IndexGO': lambda ls: sf.IndexGO(ls),
        'Index.from_labels': lambda ls: sf.Index.from_labels(ls),
        'Index(generator)': lambda ls: sf.Index(x for x in ls),
        'Index(tuple)': lambda ls: sf.Index(tuple(ls)),
        'Index(Index)': lambda ls: sf.Index(sf.Index(ls)),
        'Index(IndexGO)': lambda ls: sf.Index(sf.IndexGO(ls)),
        'IndexGO(Index)': lambda ls: sf.IndexGO(sf.Index(ls)),
        'Series.index': lambda ls: sf.Series(range(len(ls)), index=ls).index,
        'Frame.columns': lambda ls: sf.Frame.from_element(0, index=(0,), columns=ls).columns,
        'FrameGO.columns': lambda ls: sf.FrameGO.from_element(0, index=(0,), columns=ls).columns,
    }


def index_case(ctx, route, build, labels, probes, stratum):
    obs, ix = robs_lit(lambda: build(labels), probes)
    L, P = vl(labels), vl(probes)
    ctx.count(f'route:{route}', f'n:{min(len(labels), 9)}', 'accepted' if ix is not None else 'rejected')
    return Case(stratum,
                {'route': route, 'labels': repr(labels), 'probes': repr(probes), 'observed': obs[:400]},
                m=f'chk_M_index {L} {P} {obs}', s=f'chk_S_index {L} {P} {obs}',
                tags={'route': route}, nontrivial=len(labels) >= 2 or ix is None)


def construct_small_cases(ctx):
    R = routes()
    alphabet = [0, 1, True, 1.0, 'a', (0, 1)]
    probes = [0, 1, 2, -1, 'a', 'b', (0, 1), True, 1.0, 0.5, None]
    maxlen = 2 if ctx.tier == 'quick' else 3
    names = ['Index', 'IndexGO'] if ctx.tier == 'quick' else ['Index', 'IndexGO', 'Index(generator)', 'Series.index']
    for n in range(0, maxlen + 1):
        for labels in itertools.product(alphabet, repeat=n):
            for name in names:
                yield index_case(ctx, name, R[name], list(labels), probes, 'api:construct-small')


def construct_random_cases(ctx):
    R = routes()
    names = sorted(R)
    kinds = ['int', 'str', 'bool', 'float', 'tuple', 'date', 'mixed', 'npint']
    for _ in range(ctx.n(90, 3000)):
        kind = ctx.rng.choice(kinds)
        n = ctx.rng.choice([0, 1, 2, 3, 4, 5, 6, 8, 12])
        dup = ctx.rng.random() < 0.3
        labels = draw_labels(ctx.rng, kind, n, dup)
        if not labels_ok(labels):
            continue
        probes = list(labels)
        ctx.rng.shuffle(probes)
        probes = probes[:6] + ctx.rng.sample(ABSENT, 3)
        name = ctx.rng.choice(names)
        ctx.count(f'kind:{kind}')
        yield index_case(ctx, name, R[name], labels, probes, 'api:construct-random')


# ----------------------------------------------------------------------------- Index(labels, dtype=...)
def py_canon(v):
    '''Canonical form under Python equality (same as SF.IndexBijVal.canon), used only to CLASSIFY inputs.'''
    if isinstance(v, (bool, np.bool_)):
        return int(v)
    if isinstance(v, (float, np.floating)) and float(v).is_integer():
        return int(v)
    if isinstance(v, np.generic):
        return py_canon(v.item())
    if isinstance(v, tuple):
        return tuple(py_canon(x) for x in v)
    return v


def dtype_cases(ctx):
    import static_frame as sf
    pools = {
        'int': ([0, 1, 2, 3, 10, -4], [float, str, object, bool, int]),
        'float': ([0.5, 1.5, 1.25, 2.0, 3.0, -1.0], [int, str, object, float]),
        'str': (['a', 'b', '1', '10', '1e1', '2'], [object, float, str]),
        'bool': ([True, False], [int, object, str]),
        'mixed': ([1, 'a', 2.5, True], [object, str]),
    }
    for _ in range(ctx.n(60, 900)):
        kind = ctx.rng.choice(sorted(pools))
        pool, dts = pools[kind]
        n = ctx.rng.choice([0, 1, 2, 3, 4])
        raw = ctx.rng.sample(pool, min(n, len(pool))) if ctx.rng.random() < 0.8 else [ctx.rng.choice(pool) for _ in range(n)]
        dt = ctx.rng.choice(dts)
        try:
            cast_arr = np.array(raw, dtype=dt)            # NumPy's conversion, independent of static-frame
        except Exception:  # noqa
            continue
        cast = arr_items(cast_arr) if len(raw) else []
        try:
            vl(cast)
        except ValueError:
            continue
        changed = [py_canon(a) for a in raw] != [py_canon(b) for b in cast]
        cls = ctx.rng.choice([sf.Index, sf.IndexGO])
        form = ctx.rng.choice(['list', 'tuple', 'generator'])
        given = {'list': lambda: list(raw), 'tuple': lambda: tuple(raw), 'generator': lambda: (x for x in raw)}[form]
        seen, probes = set(), []
        for x in raw + cast:                                          # order-preserving de-duplication by repr
            if repr(x) not in seen:
                seen.add(repr(x))
                probes.append(x)
        probes = probes[:8] + ['zz', 7]
        obs, ix = robs_lit(lambda: cls(given(), dtype=dt), probes)
        tags = {'route': 'Index(dtype)'}
        if changed:
            tags['finding'] = 'C02-init-dtype-map-mismatch'
            # recorded kind: accepted; values are NumPy's conversion of the labels, the map holds the labels as given, in order
            kind_ = 'other'
            if ix is not None:
                try:
                    if (arr_items(ix.values) == cast and len(ix) == len(raw) and ix.positions.tolist() == list(range(len(raw)))
                            and all(int(ix.loc_to_iloc(r)) == i for i, r in enumerate(raw))):
                        kind_ = 'values-converted-map-as-given'
                except Exception:  # noqa
                    pass
            elif any(any(a == b for b in raw[:i]) for i, a in enumerate(raw)):
                # the labels AS GIVEN collide (True == 1): refused even where the converted labels are distinct -- same defect
                kind_ = 'rejected-duplicate-given-labels:' + obs[len('(Err "'):-2]
            tags['outcome'] = kind_
            tags = excuse_only_recorded(tags)
        ctx.count(f'dtype:{kind}->{np.dtype(dt).kind}', 'dtype:changed' if changed else 'dtype:unchanged')
        yield Case('api:construct-dtype', {'cls': cls.__name__, 'labels': repr(raw), 'dtype': np.dtype(dt).str, 'form': form,
                                           'converted': repr(cast), 'probes': repr(probes), 'observed': obs[:400]},
                   m=f'chk_M_index_dtype {vl(raw)} {vl(cast)} {vl(probes)} {obs}', s=f'chk_S_index {vl(cast)} {vl(probes)} {obs}',
                   tags=tags, nontrivial=len(raw) >= 1)


# ----------------------------------------------------------------------------- auto-integer index
def auto_routes():
    import static_frame as sf
    from static_frame.core.index_auto import IndexAutoFactory
    return {
        'Series(values).index': lambda n: sf.Series(tuple(range(10, 10 + n))).index,
        'Frame(array).index': lambda n: sf.Frame(np.zeros((n, 1))).index,
        'Frame(array).columns': lambda n: sf.Frame(np.zeros((1, n))).columns,
        'FrameGO(array).columns': lambda n: sf.FrameGO(np.zeros((1, n))).columns,
        'IndexAutoFactory': lambda n: IndexAutoFactory.from_optional_constructor(n, default_constructor=sf.Index),
        'IndexAutoFactory(GO)': lambda n: IndexAutoFactory.from_optional_constructor(n, default_constructor=sf.IndexGO),
    }


def is_int_typed(v):
    return isinstance(v, (int, np.integer))       # includes bool, as INT_TYPES does


def auto_probe_class(n, k):
    '''Class of a probe key on an auto-integer index of n labels, decided from the INPUT only.  Negative ints, out-of-range
    bools and None (repaired finding C02-auto-unvalidated-key, fix 041ca90) are ordinary probes now: regression inputs
    whose specification is the correct behaviour (KeyError / not contained).'''
    if isinstance(k, (float, np.floating)) and not isinstance(k, (bool, np.bool_)) and float(k).is_integer() and 0 <= k < n:
        return 'float-key'
    return 'ok'


FINDING_AUTO = {'float-key': 'C02-auto-float-key'}


def auto_cases(ctx):
    R = auto_routes()
    nmax = 4 if ctx.tier == 'quick' else 7
    names = sorted(R) if ctx.tier == 'thorough' else ['Series(values).index', 'Frame(array).columns', 'FrameGO(array).columns', 'IndexAutoFactory']
    for name in names:
        for n in range(0, nmax + 1):
            pool = list(range(-n - 2, n + 3)) + [True, False, np.int64(n - 1), np.int64(n), 'a', '', 0.5, -1.5, (5, 6), None] + [float(i) for i in range(0, n + 1)]
            groups = {'ok': []}
            for k in pool:
                c = auto_probe_class(n, k)
                if c == 'ok':
                    groups['ok'].append(k)
                else:
                    groups.setdefault((c, repr(k)), []).append(k)
            for g, probes in groups.items():
                ix = R[name](n)
                assert ix._map is None, 'route no longer yields a map-less index'
                obs = reading(obs_lit, ix, probes)
                tags = {'route': name}
                if g != 'ok':
                    tags['finding'] = FINDING_AUTO[g[0]]
                    # recorded kind: the float alias of a held position is NOT found (KeyError, not contained); every view is right
                    k = probes[0]
                    try:
                        ix.loc_to_iloc(k)
                        found = True
                    except KeyError:
                        found = False
                    except Exception:  # noqa
                        found = None
                    views_ok = arr_items(ix.values) == list(range(n)) and len(ix) == n and ix.positions.tolist() == list(range(n)) and iter_items(iter(ix)) == list(range(n))
                    tags['outcome'] = 'alias-not-found' if (len(probes) == 1 and found is False and (k in ix) is False and views_ok) else 'other'
                    tags = excuse_only_recorded(tags)
                ctx.count(f'auto:n={n}', f'auto:{g if g == "ok" else g[0]}')
                yield Case('api:auto-index', {'route': name, 'n': n, 'probes': repr(probes), 'observed': obs[:400]},
                           m=f'chk_M_auto {n} {vl(probes)} {obs}', s=f'chk_S_auto {n} {vl(probes)} {obs}',
                           tags=tags, nontrivial=n >= 1)


# ----------------------------------------------------------------------------- grow-only histories
def go_start(init):
    import static_frame as sf
    from static_frame.core.index_auto import IndexAutoFactory
    kind, arg = init
    if kind == 'labels':
        return sf.IndexGO(arg)
    return IndexAutoFactory.from_optional_constructor(arg, default_constructor=sf.IndexGO)


def init_lit(init):
    kind, arg = init
    return f'(inl {vl(arg)})' if kind == 'labels' else f'(inr {lit.z(arg)})'


def op_lit(o):
    if o[0] == 'append':
        return f'(VAppend {vlit(o[1])})'
    if o[0] == 'extend':
        return f'(VExtend {vl(o[1])})'
    return 'VTouch'


TOUCHES = [lambda ix: len(ix), lambda ix: ix.values, lambda ix: list(ix), lambda ix: ix.positions, lambda ix: ix.dtype, lambda ix: ix.copy()]


SNAPSHOTS = {
    'Index(go)': lambda ix: __import__('static_frame').Index(ix),
    'Series(index=go).index': lambda ix: __import__('static_frame').Series(range(len(ix)), index=ix).index,
    'Index(go).copy()': lambda ix: __import__('static_frame').Index(ix).copy(),
}


def run_history(ctx, init, ops, touch_pick, snap=None):
    '''snap = (i, route): build a STATIC index from the grow-only one after ops[:i] (before the further growth); it is
    returned and observed only after the whole history has run.'''
    ix = go_start(init)
    outs = []
    taken = None
    for i, o in enumerate(ops):
        if snap is not None and snap[0] == i:
            try:
                taken = SNAPSHOTS[snap[1]](ix)
            except Exception as e:  # noqa -- judged by the caller: a valid grow-only index must yield a static one
                taken = e
        try:
            if o[0] == 'append':
                ix.append(o[1])
            elif o[0] == 'extend':
                ix.extend(o[1])
            else:
                TOUCHES[touch_pick[i] % len(TOUCHES)](ix)
            outs.append('(Ok tt)')
        except Exception as e:  # noqa
            outs.append(f'(Err {lit.s(lit.err_class(e))})')
    if snap is not None:
        return ix, outs, taken
    return ix, outs


def obs_lit_cold(ix, probes):
    '''Like obs_lit, but loc_to_iloc / `in` are evaluated first, on the state the history left.'''
    lookups = lit.lst([rz(lambda k=k: ix.loc_to_iloc(k)) for k in probes])
    contains = lit.lst([lit.b(bool(ix.__contains__(k))) for k in probes])
    n = len(ix)
    values = arr_items(ix.values)
    at = iter_items(ix.iloc[i] for i in range(n))
    return ('(mk_obs ' + ' '.join([
        vl(values), vl(iter_items(iter(ix))), vl(iter_items(reversed(ix))), lit.z(n),
        lit.lst([lit.z(p) for p in ix.positions.tolist()]), vl(at), lookups, contains]) + ')')


def classify_history(init, ops):
    '''Simulate the SPECIFICATION on the input: is the index still map-less (auto) at the end, which labels does it hold,
    and does an extend carry a float alias of a held position while the index is map-less (the class in which the
    known finding C02-auto-float-key makes extend non-atomic: the alias passes the validation of extend).'''
    kind, arg = init
    labels = list(arg) if kind == 'labels' else list(range(arg))
    auto = kind == 'auto'
    alias_in_extend = False

    def push(v):
        nonlocal auto
        if auto and not (is_int_typed(v) and v == len(labels)):
            auto = False
        labels.append(v)
    for o in ops:
        if o[0] == 'append':
            if not any(o[1] == x for x in labels):
                push(o[1])
        elif o[0] == 'extend':
            vs = list(o[1])
            if auto and any((not is_int_typed(v)) and any(v == x for x in labels) for v in vs):
                alias_in_extend = True
            ok = all(not any(v == x for x in labels) for v in vs) and all(not any(vs[i] == vs[j] for j in range(i)) for i in range(len(vs)))
            if ok:
                for v in vs:
                    push(v)
    return auto, labels, alias_in_extend


def lossy_growth(init, ops):
    '''Input-derived class of the known finding C02-go-bigint-float-coercion: the grow-only index ends with a float64 labels
    array (ints and floats met through append/extend, or an all-int / all-float start) while holding a Python int that
    float64 cannot represent exactly.  (A constructor given such a mix at once yields an object array: not in the class.)'''
    def kind_of(v):
        if isinstance(v, (bool, np.bool_)):
            return 'b'
        if isinstance(v, (int, np.integer)):
            return 'i' if -2 ** 63 <= v < 2 ** 63 else 'O'
        if isinstance(v, (float, np.floating)):
            return 'f'
        return 'O'

    def inexact(v):
        return isinstance(v, (int, np.integer)) and not isinstance(v, (bool, np.bool_)) and int(float(v)) != int(v)

    def resolve(a, b):
        if a is None:
            return b
        if a == b:
            return a
        return 'f' if {a, b} == {'i', 'f'} else 'O'
    _, labels, _ = classify_history(init, ops)
    n0 = len(init[1]) if init[0] == 'labels' else init[1]
    start = labels[:n0]
    kind = None
    for v in start:
        kind = resolve(kind, kind_of(v))
    if kind == 'f' and any(inexact(v) for v in start):
        kind = 'O'                      # the constructor keeps such a mix exact (object array)
    for v in labels[n0:]:
        kind = resolve(kind, kind_of(v))
    return kind == 'f' and any(inexact(v) for v in labels)


def go_probes(rng, labels_end, extra):
    probes = list(labels_end)
    rng.shuffle(probes)
    return probes[:6] + extra


RECORDED_OUTCOMES = {
    'C02-auto-float-key': ('alias-not-found', 'partial-extend'),
    'C02-init-dtype-map-mismatch': ('values-converted-map-as-given', 'rejected-duplicate-given-labels:ErrorInitIndex'),
    'C02-go-bigint-float-coercion': ('float64-rounded-array', 'static-of-rounded-array', 'static-raises:ErrorInitIndex'),
    'C02-level-drop-inner-duplicates': ('reader-raises:ValueError', 'deduplicated'),
    'C02-level-drop-outer-offsets': ('offsets-per-parent', 'reader-raises:ValueError', 'rejected-merged-second-depth:ErrorInitIndex'),
}


def excuse_only_recorded(tags):
    '''A known-finding tag excuses a failing case only when the INPUT is in the recorded class (decided by the caller from
    the input) AND the observed outcome is of a RECORDED kind; any other outcome on the same input keeps only the
    informative key `finding_input_class`, which no known entry matches, so the failure is reported.'''
    tags = dict(tags)
    fid = tags.get('finding')
    if fid is not None and tags.get('outcome') not in RECORDED_OUTCOMES.get(fid, ()):
        tags['finding_input_class'] = tags.pop('finding')
    return tags


def py_bijection_ok(ix):
    '''Implementation-side check that an index is a bijection for ITS OWN labels (used only to classify the KIND of outcome
    a known-finding tag may excuse; verdicts are computed in Coq).'''
    try:
        vals = arr_items(ix.values)
        n = len(ix)
        if len(vals) != n or iter_items(iter(ix)) != iter_items(vals) or ix.positions.tolist() != list(range(n)):
            return False
        return all(int(ix.loc_to_iloc(v)) == i and (v in ix) for i, v in enumerate(vals))
    except Exception:  # noqa
        return False


def go_finding_outcome(finding, ix, spec_labels, alias_values=(), static=False):
    '''KIND of outcome observed on a grow-only index in the class of a known finding; the known entry excuses only the
    recorded kind (known/C02.jsonl `match.outcome`), anything else on the same input is reported.'''
    try:
        vals = arr_items(ix.values)
        if finding == 'C02-go-bigint-float-coercion':
            # recorded: the labels ARRAY is the float64 rounding of the exact labels; the map still holds the exact labels in order
            rounded = ix.values.dtype.kind == 'f' and len(vals) == len(spec_labels) and all(float(a) == float(b) for a, b in zip(vals, spec_labels))
            if static:
                # a static index taken from such a grow-only index is built from the rounded ARRAY: a consistent index over the rounded labels
                return 'static-of-rounded-array' if (rounded and py_bijection_ok(ix)) else 'other'
            exact_map = len(ix) == len(spec_labels) and all(int(ix.loc_to_iloc(v)) == i for i, v in enumerate(spec_labels))
            return 'float64-rounded-array' if (rounded and exact_map) else 'other'
        if finding == 'C02-auto-float-key':
            # recorded: an extend carrying a float alias is refused only after the values before it were appended; the index
            # stays a bijection, holds every label of the specification and nothing but values of that extend besides
            extra = [v for v in vals if not any(v == x for x in spec_labels)]
            ok = py_bijection_ok(ix) and all(any(v == x for v in vals) for x in spec_labels) and all(any(e == a for a in alias_values) for e in extra)
            return 'partial-extend' if ok else 'other'
    except Exception:  # noqa
        return 'other'
    return 'other'


def history_case(ctx, init, ops, stratum, touch_pick=None, all_probes=False):
    '''One history, observed twice: "warm" (a reader is called after the last mutation) and "cold" (loc_to_iloc / `in` are
    the first calls after the last mutation: the regression input of the repaired finding C02-autogo-stale-positions).
    Histories with a float alias of a held position (1.0 on an auto-integer [0,1]: repaired finding C02-autogo-float-append)
    are ordinary inputs: the append must be refused and leave the index unchanged.'''
    touch_pick = touch_pick or [0] * (len(ops) + 1)
    auto_end, labels_end, alias_in_extend = classify_history(init, ops)
    n_end = len(labels_end)
    extra = [n_end, n_end + 1, -1, None, True, 'zz', 0.5] if auto_end else [-1, n_end, 'zz', 0.5, None, (9, 9)]
    cand = (list(labels_end) + extra) if all_probes else go_probes(ctx.rng, labels_end, extra)
    probes = [k for k in cand if not auto_end or auto_probe_class(n_end, k) == 'ok']
    tags = {'init': init[0]}
    if alias_in_extend:
        tags['finding'] = 'C02-auto-float-key'
    elif lossy_growth(init, ops):
        tags['finding'] = 'C02-go-bigint-float-coercion'
    out = []
    ops_w = list(ops) + [('touch',)]
    ix, outs = run_history(ctx, init, ops_w, touch_pick)
    obs = reading(obs_lit_cold, ix, probes)
    I, O, P, R = init_lit(init), lit.lst([op_lit(o) for o in ops_w]), vl(probes), lit.lst(outs)
    ctx.count(f'go:init={init[0]}', f'go:len={min(len(ops), 9)}', 'go:auto-at-end' if auto_end else 'go:mapped-at-end')
    alias_vals = [v for o in ops if o[0] == 'extend' for v in o[1]]

    def with_outcome(tg, index, spec, static=False):
        tg = dict(tg)
        if 'finding' in tg:
            tg['outcome'] = go_finding_outcome(tg['finding'], index, spec, alias_vals, static)
        return excuse_only_recorded(tg)
    out.append(Case(stratum, {'init': repr(init), 'ops': repr(ops_w), 'probes': repr(probes), 'outcomes': outs, 'observed': obs[:400]},
                    m=f'chk_M_go {I} {O} {P} {R} {obs}', s=f'chk_S_go {I} {O} {P} {R} {obs}', tags=with_outcome(tags, ix, labels_end), nontrivial=len(ops) >= 1))
    # a static index built from the grow-only one BEFORE its last growth step, probed AFTER it: the labels added later
    # must be absent from it (it must not share mutable state with its source)
    muts = [i for i, o in enumerate(ops) if o[0] != 'touch']
    if muts:
        i = muts[-1]
        route = sorted(SNAPSHOTS)[(len(ops) + i + len(repr(ops))) % len(SNAPSHOTS)]
        auto_p, labels_p, alias_p = classify_history(init, ops[:i])
        later = [v for o in ops[i:] if o[0] != 'touch' for v in ([o[1]] if o[0] == 'append' else list(o[1]))]
        seen, cand = set(), []
        for v in list(labels_p) + later + [len(labels_p), -1, 'zz']:
            if repr(v) not in seen:
                seen.add(repr(v))
                cand.append(v)
        probes_p = [k for k in cand if not auto_p or auto_probe_class(len(labels_p), k) == 'ok'][:12]
        _, outs_s, static = run_history(ctx, init, ops_w, touch_pick, snap=(i, route))
        tags_s = dict({'init': init[0], 'static': route}, **({'finding': 'C02-auto-float-key'} if alias_p else
                                                           {'finding': 'C02-go-bigint-float-coercion'} if lossy_growth(init, ops[:i]) else {}))
        if isinstance(static, Exception):
            tg = dict(tags_s)
            if 'finding' in tg:
                # recorded kind: the rounded float labels collide, so the static constructor refuses them as non-unique
                tg['outcome'] = 'static-raises:' + lit.err_class(static)
                tg = excuse_only_recorded(tg)
            out.append(Case(stratum + '-static', {'init': repr(init), 'ops_before': repr(ops[:i]), 'route': route, 'error': type(static).__name__},
                            py_fail=f'{route} of a valid grow-only index raised {type(static).__name__}: {str(static)[:100]}', tags=tg))
            static = None
        obs_s = reading(obs_lit, static, probes_p) if static is not None else None
        Op, Rp, Pp = lit.lst([op_lit(o) for o in ops[:i]]), lit.lst(outs_s[:i]), vl(probes_p)
        if obs_s is not None:
            out.append(Case(stratum + '-static', {'init': repr(init), 'ops_before': repr(ops[:i]), 'route': route, 'ops_after': repr(ops_w[i:]),
                                              'probes': repr(probes_p), 'observed': obs_s[:400]},
                        m=f'chk_M_go {I} {Op} {Pp} {Rp} {obs_s}', s=f'chk_S_go {I} {Op} {Pp} {Rp} {obs_s}',
                        tags=with_outcome(tags_s, static, labels_p, static=True), nontrivial=True))
    if ops and ops[-1][0] != 'touch':
        ix, outs = run_history(ctx, init, ops, touch_pick)
        obs = reading(obs_lit_cold, ix, probes)
        O, R = lit.lst([op_lit(o) for o in ops]), lit.lst(outs)
        out.append(Case(stratum + '-cold', {'init': repr(init), 'ops': repr(ops), 'probes': repr(probes), 'outcomes': outs, 'observed': obs[:400]},
                        m=f'chk_M_go {I} {O} {P} {R} {obs}', s=f'chk_S_go {I} {O} {P} {R} {obs}', tags=with_outcome(dict(tags, cold=True), ix, labels_end), nontrivial=True))
    return out


GO_ALPHABET = [0, 1, 2, 3, 1.0, 2.0, True, 'a', (0, 1), -1]


def go_small_cases(ctx):
    inits = [('labels', []), ('labels', [0, 1]), ('labels', ['a', 1]), ('auto', 0), ('auto', 2)]
    alphabet = GO_ALPHABET if ctx.tier == 'thorough' else [0, 2, 3, 1.0, 'a', True]
    single = [('append', v) for v in alphabet] + [('touch',)]
    maxlen = 2 if ctx.tier == 'quick' else 3
    for init in inits:
        for n in range(1, maxlen + 1):
            for ops in itertools.product(single, repeat=n):
                yield from history_case(ctx, init, list(ops), 'api:go-small')
        for vs in itertools.product(alphabet[:5] if ctx.tier == 'thorough' else alphabet[:3], repeat=2):
            yield from history_case(ctx, init, [('extend', list(vs))], 'api:go-small')


def go_promotion_cases(ctx):
    '''Auto-integer starts: k in-sequence integer appends (the index stays map-less, caches go stale), then a label that
    forces the promotion to a real map, with NO reader in between; every label is probed afterwards.'''
    for n0 in (0, 1, 2, 3):
        for k in range(0, 5 if ctx.tier == 'quick' else 7):
            for last in ('x', n0 + k + 5, 0.5, (0, 1)):
                ops = [('append', n0 + i) for i in range(k)] + [('append', last)]
                yield from history_case(ctx, ('auto', n0), ops, 'api:go-promotion', all_probes=True)
                yield from history_case(ctx, ('auto', n0), ops + [('append', n0 + k), ('append', 'y')], 'api:go-promotion', all_probes=True)
            if k:
                ops = [('extend', [n0 + i for i in range(k)]), ('append', 'x')]
                yield from history_case(ctx, ('auto', n0), ops, 'api:go-promotion', all_probes=True)
                ops = [('append', n0 + i) for i in range(k)] + [('extend', ['x', 'y'])]
                yield from history_case(ctx, ('auto', n0), ops, 'api:go-promotion', all_probes=True)


def static_from_go_cases(ctx):
    '''Static indices taken from grow-only containers before they grow (FrameGO.to_frame().columns, Frame(FrameGO).columns,
    IndexDate(IndexDateGO), Index(FrameGO.columns)), observed after the growth: they hold the old labels only.'''
    import static_frame as sf
    C = dt_classes()
    for _ in range(ctx.n(30, 400)):
        kind = ctx.rng.choice(['int', 'str', 'mixed', 'auto'])
        n = ctx.rng.choice([0, 1, 2, 4])
        if kind == 'auto':
            f = sf.FrameGO(np.zeros((1, n)))
            labels = list(range(n))
            adds = [n, 'x', n + 1][:ctx.rng.choice([1, 2, 3])]
        else:
            labels = draw_labels(ctx.rng, kind, n, False)
            f = sf.FrameGO.from_element(0, index=(0,), columns=labels)
            adds = [v for v in ['new1', 77, ('t', 1)] if not any(v == x for x in labels)][:ctx.rng.choice([1, 2, 3])]
        route = ctx.rng.choice(['FrameGO.to_frame().columns', 'Frame(FrameGO).columns', 'Index(FrameGO.columns)', 'FrameGO.columns.copy() -> Index'])
        static = {'FrameGO.to_frame().columns': lambda: f.to_frame().columns, 'Frame(FrameGO).columns': lambda: sf.Frame(f).columns,
                  'Index(FrameGO.columns)': lambda: sf.Index(f.columns), 'FrameGO.columns.copy() -> Index': lambda: sf.Index(f.columns.copy())}[route]()
        if ctx.rng.random() < 0.5:
            static.values
        for v in adds:
            f[v] = 1
        probes = list(labels)[:6] + adds + ['zz']
        obs = f'(Ok {reading(obs_lit, static, probes)})'
        ctx.count(f'static-from-go:{route}')
        yield Case('api:static-from-go', {'route': route, 'labels': repr(labels), 'added_afterwards': repr(adds), 'probes': repr(probes), 'observed': obs[:300]},
                   m=f'chk_M_auto {len(labels)} {vl(probes)} {obs[4:-1]}' if kind == 'auto' else f'chk_M_index {vl(labels)} {vl(probes)} {obs}',
                   s=f'chk_S_index {vl(labels)} {vl(probes)} {obs}', tags={'route': route})
    for _ in range(ctx.n(20, 300)):
        unit = ctx.rng.choice(sorted(C))
        cls, cls_go, pool = C[unit]
        strs = ctx.rng.sample(pool, ctx.rng.choice([0, 1, 2]))
        go = cls_go(strs)
        static = cls(go) if ctx.rng.random() < 0.7 else sf.Index(go)
        adds = [s for s in pool if s not in strs][:ctx.rng.choice([1, 2])]
        for s in adds:
            go.append(s)
        probe_strs = strs + adds
        keys = [np.datetime64(s, unit) for s in probe_strs]
        plits = lit.lst([vlit(k) for k in keys])
        obs = f'(Ok {reading(obs_lit, static, keys)})'
        L = vl([np.datetime64(s, unit) for s in strs])
        ctx.count(f'static-from-go:datetime-{unit}')
        yield Case('api:static-from-go', {'route': f'{type(static).__name__}({cls_go.__name__})', 'labels': repr(strs), 'added_afterwards': repr(adds), 'observed': obs[:300]},
                   m=f'chk_M_index {L} {plits} {obs}', s=f'chk_S_index {L} {plits} {obs}', tags={'route': 'datetime'})


BIG = 2 ** 53
BIGINT_SETS = [[-BIG - 1, -BIG, 0.5], [BIG + 1, BIG, 0.5], [-(10 ** 17), 1.5], [BIG + 1, 0.5], [BIG + 1, BIG + 2, 0.5, -0.25],
               [-BIG - 1, BIG + 1, 2.0], [BIG + 1, BIG + 3], [0.5, -BIG - 3, -BIG - 2, 7], [10 ** 17 + 1, 10 ** 17, 1.5, 0], [-BIG - 1, 1.5, 'a']]


def bigint_cases(ctx):
    '''Python ints that float64 cannot hold exactly, mixed with floats: every view of the index must describe the same label
    sequence and lookup(values[i]) = i.  Constructors (all flat routes, hierarchical leaves) and grow-only histories.'''
    import static_frame as sf
    R = routes()
    names = sorted(R) if ctx.tier == 'thorough' else ['Index', 'IndexGO', 'Index(generator)', 'Series.index', 'FrameGO.columns']
    for labels in BIGINT_SETS:
        for perm in ([labels, labels[::-1]] if ctx.tier == 'quick' else list(itertools.permutations(labels))[:8]):
            perm = list(perm)
            probes = perm + [BIG, -BIG, float(BIG), 0.5, 'zz']
            for name in names:
                yield index_case(ctx, name, R[name], perm, probes, 'api:bigint-construct')
            table = [('a', v) for v in perm] + [('b', perm[0])]
            yield from hier_case(ctx, 'IH.from_labels', hier_routes()['IH.from_labels'], table, [list(x) for x in table] + [['a', float(BIG)], ['b', 0.5]], 'api:bigint-construct')
    # grown: ints and floats meet through append / extend
    starts = [[0.5], [], [1, 2], [BIG + 1, BIG], [0.5, 'a'], [-BIG - 1]]
    seqs = [[-BIG - 1, -BIG], [BIG + 1, BIG], [0.5, BIG + 1], [BIG + 1, 0.5, BIG + 2], [-(10 ** 17) - 1, 1.5], [BIG + 1, 'x', 0.5], [2.0, BIG * 4]]
    for start in (starts if ctx.tier == 'thorough' else starts[:4]):
        for seq in seqs:
            ops = [('append', v) for v in seq]
            yield from history_case(ctx, ('labels', start), ops, 'api:bigint-go', all_probes=True)
            yield from history_case(ctx, ('labels', start), [('extend', list(seq))], 'api:bigint-go', all_probes=True)
            if ctx.tier == 'thorough':
                yield from history_case(ctx, ('labels', start), [ops[0], ('touch',)] + ops[1:], 'api:bigint-go', all_probes=True)


def go_random_cases(ctx):
    pool = POOLS['int'][:8] + POOLS['str'][:4] + POOLS['tuple'][:3] + [1.0, 2.0, 3.0, 0.5, True, False, None, D0] + list(range(0, 14))
    for _ in range(ctx.n(90, 2500)):
        r = ctx.rng.random()
        if r < 0.4:
            init = ('auto', ctx.rng.choice([0, 1, 2, 3, 5]))
        else:
            kind = ctx.rng.choice(['int', 'str', 'mixed', 'tuple', 'float'])
            init = ('labels', draw_labels(ctx.rng, kind, ctx.rng.choice([0, 1, 2, 4]), False))
        ops = []
        count = len(init[1]) if init[0] == 'labels' else init[1]
        for _ in range(ctx.rng.choice([1, 2, 3, 5, 8, 12])):
            q = ctx.rng.random()
            if q < 0.55:
                # bias toward the value that keeps an auto index auto
                v = count if (init[0] == 'auto' and ctx.rng.random() < 0.6) else ctx.rng.choice(pool)
                ops.append(('append', v))
                count += 1
            elif q < 0.75:
                ops.append(('extend', [ctx.rng.choice(pool) for _ in range(ctx.rng.choice([0, 1, 2, 3]))]))
            else:
                ops.append(('touch',))
        pick = [ctx.rng.randrange(len(TOUCHES)) for _ in range(len(ops) + 1)]
        yield from history_case(ctx, init, ops, 'api:go-random', pick)


# ----------------------------------------------------------------------------- list / slice keys
def rlist(fn):
    try:
        out = fn()
    except Exception as e:  # noqa
        return f'(Err {lit.s(lit.err_class(e))})'
    if isinstance(out, list) and all(isinstance(x, (int, np.integer)) for x in out):
        return f'(Ok {lit.lst([lit.z(x) for x in out])})'
    return '(Err "NotAList")'


def rslice(fn):
    try:
        out = fn()
    except Exception as e:  # noqa
        return f'(Err {lit.s(lit.err_class(e))})'
    if isinstance(out, slice):
        return f'(Ok {lit.slice_(out)})'
    return '(Err "NotASlice")'


def oval(v, absent=False):
    return 'None' if absent else f'(Some {vlit(v)})'


def multi_key_cases(ctx):
    import static_frame as sf
    for _ in range(ctx.n(80, 1500)):
        kind = ctx.rng.choice(['int', 'str', 'mixed', 'tuple', 'float', 'date'])
        n = ctx.rng.choice([1, 2, 3, 5, 8])
        labels = draw_labels(ctx.rng, kind, n, False)
        cls = ctx.rng.choice([sf.Index, sf.IndexGO])
        ix = cls(labels)
        L = vl(labels)
        pool = list(labels) + [x for x in ctx.rng.sample(ABSENT, 2) if x is not None and not any(x == y for y in labels)]
        # list of labels
        ks = [ctx.rng.choice(pool if ctx.rng.random() < 0.25 else labels) for _ in range(ctx.rng.choice([0, 1, 2, 3, 5]))]
        out = rlist(lambda: ix.loc_to_iloc(ks))
        ctx.count('key:list')
        yield Case('api:loc_to_iloc-list', {'cls': cls.__name__, 'labels': repr(labels), 'key': repr(ks), 'observed': out},
                   m=f'chk_M_list {L} {vl(ks)} {out}', s=f'chk_S_list {L} {vl(ks)} {out}', tags={'key': 'list'}, nontrivial=len(ks) >= 1)
        # slice of labels (inclusive stop)
        a = None if ctx.rng.random() < 0.3 else ctx.rng.choice(pool if ctx.rng.random() < 0.2 else labels)
        b = None if ctx.rng.random() < 0.3 else ctx.rng.choice(pool if ctx.rng.random() < 0.2 else labels)
        st = ctx.rng.choice([None, None, 1, 2, -1])
        if a is None and b is None and st is None:
            continue        # the null slice is answered by a different branch (slice(0, len)); element lookups are what C02 fixes
        out = rslice(lambda: ix.loc_to_iloc(slice(a, b, st)))
        ctx.count('key:slice')
        yield Case('api:loc_to_iloc-slice', {'cls': cls.__name__, 'labels': repr(labels), 'key': repr((a, b, st)), 'observed': out},
                   m=f'chk_M_slice {L} {oval(a, a is None)} {oval(b, b is None)} {lit.oz(st)} {out}',
                   s=f'chk_S_slice {L} {oval(a, a is None)} {oval(b, b is None)} {lit.oz(st)} {out}', tags={'key': 'slice'})


# ----------------------------------------------------------------------------- derivations
def derived_case(ctx, name, labels, build, expect, probes, extra=None):
    obs, ix = robs_lit(build, probes)
    ctx.count(f'derive:{name}', 'derived:accepted' if ix is not None else 'derived:rejected')
    desc = {'derivation': name, 'labels': repr(labels), 'probes': repr(probes), 'observed': obs[:300]}
    desc.update(extra or {})
    P = vl(probes)
    return Case('api:derive', desc, m=f'chk_M_derived {expect} {P} {obs}', s=f'chk_S_derived {expect} {P} {obs}',
                tags={'derivation': name})


def auto_derive_cases(ctx):
    '''Derivations FROM auto-integer (map-less) sources, as the library builds them: every positional key kind, incl.
    slices from the head with step 2 and 3; the derived index is observed completely (every held label, absent ints).'''
    import static_frame as sf
    R = auto_routes()
    quick = ctx.tier == 'quick'
    names = ['Series(values).index', 'FrameGO(array).columns', 'IndexAutoFactory'] if quick else sorted(R)
    sizes = [0, 3, 6] if quick else list(range(0, 8))
    for name in names:
        for n in sizes:
            labels = list(range(n))
            L = vl(labels)
            probes = list(range(-1, n + 2)) + ['a']
            ex = {'route': name, 'n': n}

            def emit(dname, fn, expect, extra):
                src = R[name](n)
                assert src._map is None, 'route no longer yields a map-less index'
                return derived_case(ctx, 'auto:' + dname, labels, lambda: fn(src), expect, probes, dict(ex, **extra))
            starts = [None, 0, 1] if quick else [None, 0, 1, 2, -2]
            stops = [None, n - 1, 2] if quick else [None, n, n - 1, 2, -1]
            steps = [None, 2, 3, -1] if quick else [None, 1, 2, 3, 4, -1, -2]
            for a, b, st in itertools.product(starts, stops, steps):
                k = slice(a, b, st)
                yield emit('iloc[slice]', lambda s, k=k: s.iloc[k], f'(vS_iloc_slice {L} {lit.slice_(k)})', {'key': repr(k)})
            for _ in range(3 if quick else 8):
                ps = [ctx.rng.randrange(-n - 1, n + 1) for _ in range(ctx.rng.choice([0, 1, 2, 3, n]))]
                yield emit('iloc[list]', lambda s, ps=ps: s.iloc[ps], f'(vS_iloc_list {L} {lit.lst([lit.z(p) for p in ps])})', {'key': repr(ps)})
                yield emit('iloc[array]', lambda s, ps=ps: s.iloc[np.array(ps, dtype=int)], f'(vS_iloc_list {L} {lit.lst([lit.z(p) for p in ps])})', {'key': repr(ps)})
                mask = [ctx.rng.random() < 0.5 for _ in range(n)]
                yield emit('iloc[mask]', lambda s, mask=mask: s.iloc[np.array(mask, dtype=bool)], f'(vS_iloc_mask {L} {lit.lst([lit.b(x) for x in mask])})', {'key': repr(mask)})
                if n:
                    ks = [ctx.rng.randrange(0, n) for _ in range(ctx.rng.choice([1, 2, 3]))]
                    yield emit('loc[list]', lambda s, ks=ks: s.loc[ks], f'(vS_loc_list {L} {vl(ks)})', {'key': repr(ks)})
                    dp = sorted({ctx.rng.randrange(-n, n) for _ in range(ctx.rng.choice([1, 2]))})
                    yield emit('drop.iloc[list]', lambda s, dp=dp: s.drop.iloc[dp], f'(vS_drop_iloc {L} {lit.lst([lit.z(p) for p in dp])})', {'key': repr(dp)})
                    sh = ctx.rng.randrange(-n - 1, n + 2)
                    yield emit('roll', lambda s, sh=sh: s.roll(sh), f'(vS_roll {L} {lit.z(sh)})', {'shift': sh})
            for dname, fn in (('copy', lambda s: s.copy()), ('rename', lambda s: s.rename('nm')), ('Index(ix)', lambda s: sf.Index(s)),
                              ('IndexGO(ix)', lambda s: sf.IndexGO(s)), ('iloc[:]', lambda s: s.iloc[:]), ('drop.iloc[None]', lambda s: s._drop_iloc(None)),
                              ('sort', lambda s: s.sort()), ('sort(desc)', lambda s: s.sort(ascending=False))):
                expect = f'(vS_sort_int {L} false)' if dname == 'sort(desc)' else f'(Ok {L})'
                yield emit(dname, fn, expect, {})


def more_flat_cases(ctx):
    '''Routes of index.py / index_base.py that derive or construct a flat index and were not reached by the other strata
    (coverage-guided): __getitem__, head/tail, sample, fillna, label slices / masks / ILoc keys, drop by mask / slice,
    multi-operand set operations, astype to datetime64, Index(IndexHierarchy / Series / Frame), typed-array conversion.'''
    import static_frame as sf
    for _ in range(ctx.n(18, 500)):
        kind = ctx.rng.choice(['int', 'str', 'mixed', 'float', 'str', 'auto'])
        n = ctx.rng.choice([1, 2, 3, 4, 6])
        if kind == 'auto':
            labels = list(range(n))
            mk = lambda: sf.Series(tuple(range(10, 10 + n))).index
        else:
            labels = draw_labels(ctx.rng, kind, n, False)
            n = len(labels)
            cls = ctx.rng.choice([sf.Index, sf.IndexGO])
            mk = lambda: cls(labels)
        L = vl(labels)
        probes = list(labels)[:6] + ([-1, n] if kind == 'auto' else ['zz', -3])
        ex = {'source': 'auto' if kind == 'auto' else 'mapped'}

        def emit(name, fn, expect, **extra):
            return derived_case(ctx, 'more:' + name, labels, lambda: fn(mk()), expect, probes, dict(ex, **extra))
        k = slice(ctx.rng.choice([None, 0, 1, -2]), ctx.rng.choice([None, n, n - 1, -1]), ctx.rng.choice([None, 1, 2, -1]))
        yield emit('ix[slice]', lambda s: s[k], f'(vS_iloc_slice {L} {lit.slice_(k)})', key=repr(k))
        ps = [ctx.rng.randrange(-n, n) for _ in range(ctx.rng.choice([1, 2, 3]))]
        yield emit('ix[list]', lambda s: s[ps], f'(vS_iloc_list {L} {lit.lst([lit.z(p) for p in ps])})', key=repr(ps))
        c = ctx.rng.choice([0, 1, 2, n, n + 3])
        yield emit('head', lambda s: s.head(c), f'(vS_iloc_slice {L} {lit.slice_(slice(None, c))})', count=c)
        yield emit('tail', lambda s: s.tail(c), f'(vS_iloc_slice {L} {lit.slice_(slice(-c, None))})' if c else f'(Ok {L})', count=c)
        if kind != 'mixed':
            yield emit('fillna', lambda s: s.fillna(labels[0]), f'(Ok {L})')
        mask = [ctx.rng.random() < 0.5 for _ in range(n)]
        M = lit.lst([lit.b(x) for x in mask])
        yield emit('loc[mask]', lambda s: s.loc[np.array(mask, dtype=bool)], f'(vS_iloc_mask {L} {M})', key=repr(mask))
        yield emit('drop.iloc[mask]', lambda s: s.drop.iloc[np.array(mask, dtype=bool)], f'(vS_drop_iloc {L} {lit.lst([lit.z(i) for i, m in enumerate(mask) if m])})', key=repr(mask))
        yield emit('drop.loc[mask]', lambda s: s.drop.loc[np.array(mask, dtype=bool)], f'(vS_drop_iloc {L} {lit.lst([lit.z(i) for i, m in enumerate(mask) if m])})', key=repr(mask))
        sl = slice(ctx.rng.choice([None, 0, 1]), ctx.rng.choice([None, n - 1, n]), ctx.rng.choice([None, 2]))
        yield emit('drop.iloc[slice]', lambda s: s.drop.iloc[sl], f'(vS_drop_iloc {L} {lit.lst([lit.z(i) for i in range(n)[sl]])})', key=repr(sl))
        yield emit('loc[ILoc[list]]', lambda s: s.loc[sf.ILoc[ps]], f'(vS_iloc_list {L} {lit.lst([lit.z(p) for p in ps])})', key=repr(ps))
        if kind != 'auto':
            a = None if ctx.rng.random() < 0.3 else ctx.rng.choice(labels + ['zz'] if ctx.rng.random() < 0.15 else labels)
            b = None if ctx.rng.random() < 0.3 else ctx.rng.choice(labels)
            st = ctx.rng.choice([None, None, 2, -1])
            if not (a is None and b is None and st is None):
                yield emit('loc[slice]', lambda s: s.loc[a:b:st], f'(vS_loc_slice {L} {oval(a, a is None)} {oval(b, b is None)} {lit.oz(st)})', key=repr((a, b, st)))
                if st is None:
                    obs, ix = robs_lit(lambda: mk().drop.loc[a:b], probes)
                    yield Case('api:derive', {'derivation': 'more:drop.loc[slice]', 'labels': repr(labels), 'key': repr((a, b)), 'observed': obs[:300]},
                               s=f'chk_S_derived (match vS_loc_slice {L} {oval(a, a is None)} {oval(b, b is None)} None with Ok sel => Ok (filter (fun x => negb (memb val_eqb x sel)) (map canon {L})) | Err e => Err e end) {vl(probes)} {obs}',
                               tags={'derivation': 'more:drop.loc[slice]'})
        cnt = ctx.rng.choice([0, 1, n])
        obs, ix = robs_lit(lambda: mk().sample(cnt, seed=ctx.rng.randrange(100)), probes)
        ctx.count('derive:more:sample')
        yield Case('api:derive', {'derivation': 'more:sample', 'labels': repr(labels), 'count': cnt, 'observed': obs[:300]},
                   s=f'chk_S_sample {L} {cnt} {vl(probes)} {obs}', tags={'derivation': 'more:sample'})
        if kind in ('int', 'str', 'float'):
            o1 = draw_labels(ctx.rng, kind, ctx.rng.choice([0, 1, 3]), False)
            o2 = draw_labels(ctx.rng, kind, ctx.rng.choice([1, 2]), False) + labels[:1]
            O1, O2 = vl(o1), vl(o2)
            pr = probes + o1[:2] + o2[:2]
            if o1:
                yield setop_case(ctx, 'more:union(a, b)', labels, [o1, o2], lambda: mk().union(sf.Index(o1), o2), f'(vset_union (vset_union {L} {O1}) {O2})', pr)
                o1x = o1 + [x for x in labels[:1] if not any(x == y for y in o1)]
                yield setop_case(ctx, 'more:intersection(a, b)', labels, [o1x, o2], lambda: mk().intersection(sf.Index(o1x), o2), f'(vset_inter (vset_inter {L} {vl(o1x)}) {O2})', pr)
            yield setop_case(ctx, 'more:difference(equal)', labels, labels, lambda: mk().difference(sf.Index(labels)), '[]', pr)
            yield setop_case(ctx, 'more:union(self)', labels, labels, lambda: (lambda s: s.union(s))(mk()), f'(map canon {L})', pr)
    # conversions between index kinds
    for _ in range(ctx.n(12, 200)):
        days = sorted(ctx.rng.sample(range(0, 70), ctx.rng.choice([1, 2, 3])))
        strs = [str(np.datetime64('2020-01-01') + d) for d in days]
        unit = ctx.rng.choice(['D', 'M', 'Y'])
        cast = [np.datetime64(s, unit) for s in strs]
        pr_keys = cast[:3]
        P = lit.lst([vlit(k) for k in pr_keys])
        obs, ix = robs_lit(lambda: sf.Index(strs).astype(f'datetime64[{unit}]'), pr_keys)
        yield Case('api:derive', {'derivation': 'more:astype(datetime64)', 'labels': repr(strs), 'unit': unit, 'observed': obs[:300]},
                   m=f'chk_M_index {vl(cast)} {P} {obs}', s=f'chk_S_index {vl(cast)} {P} {obs}', tags={'derivation': 'more:astype(datetime64)'})
        C = dt_classes()
        klass = C[unit][ctx.rng.choice([0, 1])]
        arr = np.array(strs, dtype='datetime64[D]')
        obs, ix = robs_lit(lambda: klass(arr), pr_keys)
        yield Case('api:derive', {'derivation': 'more:typed(array of another unit)', 'cls': klass.__name__, 'labels': repr(strs), 'observed': obs[:300]},
                   m=f'chk_M_index {vl(cast)} {P} {obs}', s=f'chk_S_index {vl(cast)} {P} {obs}', tags={'derivation': 'more:typed-array'})
        obs, ix = robs_lit(lambda: klass(sf.IndexDate(strs)), pr_keys)
        yield Case('api:derive', {'derivation': 'more:typed(IndexDate)', 'cls': klass.__name__, 'labels': repr(strs), 'observed': obs[:300]},
                   m=f'chk_M_index {vl(cast)} {P} {obs}', s=f'chk_S_index {vl(cast)} {P} {obs}', tags={'derivation': 'more:typed-index'})
    for _ in range(ctx.n(8, 120)):
        table = random_tree_labels(ctx.rng, 2, [['a', 'b', 'c'], [1, 2, 3]])[:5]
        tup = [tuple(x) for x in table]
        pr = tup[:3] + [('zz', 0)]
        yield index_case(ctx, 'Index(IndexHierarchy)', lambda ls: sf.Index(sf.IndexHierarchy.from_labels(ls)), tup, pr, 'api:construct-more')
        yield index_case(ctx, 'Index(Frame)', lambda ls: sf.Index(sf.Frame.from_records(ls)), tup, pr, 'api:construct-more')
        flat = draw_labels(ctx.rng, ctx.rng.choice(['int', 'str']), ctx.rng.choice([0, 2, 3]), ctx.rng.random() < 0.3)
        yield index_case(ctx, 'Index(Series)', lambda ls: sf.Index(sf.Series(ls)), flat, flat[:3] + ['zz'], 'api:construct-more')
        yield index_case(ctx, 'IndexGO(Series)', lambda ls: sf.IndexGO(sf.Series(ls)), flat, flat[:3] + ['zz'], 'api:construct-more')


def date_range_cases(ctx):
    '''IndexDate / IndexYearMonth / IndexYear .from_date_range / from_year_month_range / from_year_range: the expected labels
    are NumPy's arange over the unit (computed by the harness), observed completely.'''
    import static_frame as sf
    for _ in range(ctx.n(20, 300)):
        y0 = ctx.rng.choice([1969, 1999, 2019, 2020])
        m0, m1 = ctx.rng.randint(1, 12), ctx.rng.randint(1, 12)
        d0, d1 = ctx.rng.randint(1, 28), ctx.rng.randint(1, 28)
        y1 = y0 + ctx.rng.choice([0, 0, 1])
        step = ctx.rng.choice([1, 1, 2, 7])
        start_d, stop_d = f'{y0}-{m0:02d}-{d0:02d}', f'{y1}-{m1:02d}-{d1:02d}'
        start_m, stop_m = start_d[:7], stop_d[:7]
        go = ctx.rng.random() < 0.4
        plans = [
            ('IndexDate', 'from_date_range', (start_d, stop_d, step), np.arange(np.datetime64(start_d), np.datetime64(stop_d) + 1, step)),
            ('IndexDate', 'from_year_month_range', (start_m, stop_m, step), np.arange(np.datetime64(start_m, 'D'), (np.datetime64(stop_m, 'M') + 1).astype('datetime64[D]'), step)),
            ('IndexDate', 'from_year_range', (str(y0), str(y1), step * 30), np.arange(np.datetime64(str(y0), 'D'), (np.datetime64(str(y1), 'Y') + 1).astype('datetime64[D]'), step * 30)),
            ('IndexYearMonth', 'from_date_range', (start_d, stop_d, step), np.arange(np.datetime64(start_m, 'M'), np.datetime64(stop_m, 'M') + 1, step)),
            ('IndexYearMonth', 'from_year_month_range', (start_m, stop_m, step), np.arange(np.datetime64(start_m, 'M'), np.datetime64(stop_m, 'M') + 1, step)),
            ('IndexYearMonth', 'from_year_range', (str(y0), str(y1), step), np.arange(np.datetime64(str(y0), 'M'), (np.datetime64(str(y1), 'Y') + 1).astype('datetime64[M]'), step)),
            ('IndexYear', 'from_date_range', (start_d, stop_d, 1), np.arange(np.datetime64(str(y0), 'Y'), np.datetime64(str(y1), 'Y') + 1, 1)),
            ('IndexYear', 'from_year_month_range', (start_m, stop_m, 1), np.arange(np.datetime64(str(y0), 'Y'), np.datetime64(str(y1), 'Y') + 1, 1)),
            ('IndexYear', 'from_year_range', (str(y0), str(y1 + 3), step), np.arange(np.datetime64(str(y0), 'Y'), np.datetime64(str(y1 + 3), 'Y') + 1, step)),
        ]
        for cname, meth, args, expect in (plans if ctx.tier == 'thorough' else ctx.rng.sample(plans, 3)):
            if len(expect) > 40:
                continue
            klass = getattr(sf, cname + ('GO' if go else ''))
            labels = list(expect)
            keys = labels[:3] + labels[-2:] + [expect[0] - 1 if len(expect) else np.datetime64('1900-01-01', np.datetime_data(expect.dtype)[0])]
            P = lit.lst([vlit(k) for k in keys])
            obs, ix = robs_lit(lambda: getattr(klass, meth)(*args), keys)
            ctx.count(f'date-range:{cname}.{meth}')
            yield Case('api:date-range', {'cls': klass.__name__, 'method': meth, 'args': repr(args), 'n_expected': len(labels), 'observed': obs[:300]},
                       m=f'chk_M_index {vl(labels)} {P} {obs}', s=f'chk_S_index {vl(labels)} {P} {obs}', tags={'route': f'{cname}.{meth}'},
                       nontrivial=len(labels) >= 2)


def setop_case(ctx, name, labels, other, build, expect, probes):
    obs, ix = robs_lit(build, probes)
    ctx.count(f'derive:{name}')
    return Case('api:derive-setop', {'derivation': name, 'labels': repr(labels), 'other': repr(other), 'observed': obs[:300]},
                s=f'chk_S_setop {expect} {vl(probes)} {obs}', tags={'derivation': name})


def derive_cases(ctx):
    import copy
    import pickle
    import static_frame as sf
    for _ in range(ctx.n(30, 900)):
        kind = ctx.rng.choice(['int', 'str', 'mixed', 'tuple', 'float', 'int', 'str'])
        n = ctx.rng.choice([1, 2, 3, 4, 6, 9])
        labels = draw_labels(ctx.rng, kind, n, False)
        n = len(labels)
        cls = ctx.rng.choice([sf.Index, sf.IndexGO])
        src = cls(labels)
        if cls is sf.IndexGO and ctx.rng.random() < 0.5:
            # a grown source: the last label arrives by append (caches stale when the derivation starts)
            src = cls(labels[:-1])
            src.append(labels[-1])
        L = vl(labels)
        probes = list(labels)[:5] + [x for x in ctx.rng.sample(ABSENT, 2) if x is not None]
        ex = {'cls': cls.__name__}
        # iloc list (duplicates and out-of-range included)
        ps = [ctx.rng.randrange(-n - 1, n + 1) for _ in range(ctx.rng.choice([0, 1, 2, 3, n]))]
        yield derived_case(ctx, 'iloc[list]', labels, lambda: src.iloc[ps], f'(vS_iloc_list {L} {lit.lst([lit.z(p) for p in ps])})', probes, dict(ex, key=repr(ps)))
        # iloc slice
        k = slice(*(ctx.rng.choice([None, None] + list(range(-n - 1, n + 2))) for _ in range(2)), ctx.rng.choice([None, 1, 2, -1, -2]))
        yield derived_case(ctx, 'iloc[slice]', labels, lambda: src.iloc[k], f'(vS_iloc_slice {L} {lit.slice_(k)})', probes, dict(ex, key=repr(k)))
        # iloc Boolean mask
        mask = [ctx.rng.random() < 0.5 for _ in range(n)]
        yield derived_case(ctx, 'iloc[mask]', labels, lambda: src.iloc[np.array(mask, dtype=bool)], f'(vS_iloc_mask {L} {lit.lst([lit.b(x) for x in mask])})', probes, dict(ex, key=repr(mask)))
        # loc list
        ks = [ctx.rng.choice(labels) for _ in range(ctx.rng.choice([1, 2, 3]))]
        if ctx.rng.random() < 0.15:
            ks.append('zz')
        yield derived_case(ctx, 'loc[list]', labels, lambda: src.loc[ks], f'(vS_loc_list {L} {vl(ks)})', probes, dict(ex, key=repr(ks)))
        # drop
        ps = sorted({ctx.rng.randrange(-n, n) for _ in range(ctx.rng.choice([1, 2, 3]))})
        yield derived_case(ctx, 'drop.iloc[list]', labels, lambda: src.drop.iloc[ps], f'(vS_drop_iloc {L} {lit.lst([lit.z(p) for p in ps])})', probes, dict(ex, key=repr(ps)))
        ks = list({id(x): x for x in (ctx.rng.choice(labels) for _ in range(ctx.rng.choice([1, 2])))}.values())
        yield derived_case(ctx, 'drop.loc[list]', labels, lambda: src.drop.loc[ks], f'(vS_drop_loc {L} {vl(ks)})', probes, dict(ex, key=repr(ks)))
        # roll
        sh = ctx.rng.randrange(-2 * n - 1, 2 * n + 2)
        yield derived_case(ctx, 'roll', labels, lambda: src.roll(sh), f'(vS_roll {L} {lit.z(sh)})', probes, dict(ex, shift=sh))
        # relabel with a dict (may collide -> must be rejected)
        tgt = ctx.rng.sample(labels, min(n, ctx.rng.choice([1, 2])))
        mp = {a: ctx.rng.choice(labels + ['new1', 'new2', 77]) for a in tgt}
        mlit = lit.lst([f'({vlit(a)}, {vlit(b)})' for a, b in mp.items()])
        yield derived_case(ctx, 'relabel(dict)', labels, lambda: src.relabel(mp), f'(vS_relabel {L} {mlit})', probes + ['new1', 77], dict(ex, mapping=repr(mp)))
        yield derived_case(ctx, 'relabel(func)', labels, lambda: src.relabel(lambda x: mp.get(x, x)), f'(vS_relabel {L} {mlit})', probes + ['new1', 77], dict(ex, mapping=repr(mp)))
        # identity-like derivations
        for nm, fn in (('copy', lambda: src.copy()), ('rename', lambda: src.rename('nm')), ('deepcopy', lambda: copy.deepcopy(src)),
                       ('pickle', lambda: pickle.loads(pickle.dumps(src))), ('Index(ix)', lambda: sf.Index(src)), ('IndexGO(ix)', lambda: sf.IndexGO(src)),
                       ('iloc[:]', lambda: src.iloc[:]), ('drop.iloc[None]', lambda: src._drop_iloc(None))):
            if ctx.rng.random() < 0.35:
                yield derived_case(ctx, nm, labels, fn, f'(Ok {L})', probes, ex)
        if kind == 'int':
            asc = ctx.rng.random() < 0.5
            yield derived_case(ctx, 'sort', labels, lambda: src.sort(ascending=asc), f'(vS_sort_int {L} {lit.b(asc)})', probes, dict(ex, ascending=asc))
            small = all(abs(x) < 2 ** 31 for x in labels)
            if small:
                yield derived_case(ctx, 'astype(float)', labels, lambda: src.astype(float), f'(Ok {L})', probes, ex)
            yield derived_case(ctx, 'astype(object)', labels, lambda: src.astype(object), f'(Ok {L})', probes, ex)
        # set operations with another index / iterable
        other = draw_labels(ctx.rng, kind, ctx.rng.choice([0, 1, 3, 5]), False)
        if ctx.rng.random() < 0.5 and labels:
            other = other + [x for x in ctx.rng.sample(labels, min(n, 2)) if not any(x == y for y in other)]
        if kind in ('int', 'str', 'float'):     # sortable homogeneous labels: NumPy set functions sort
            O = vl(other)
            oth = sf.Index(other) if ctx.rng.random() < 0.6 else list(other)
            if not (isinstance(oth, list) and not oth):
                pr = probes + other[:3]
                yield setop_case(ctx, 'union', labels, other, lambda: src.union(oth), f'(vset_union {L} {O})', pr)
                yield setop_case(ctx, 'intersection', labels, other, lambda: src.intersection(oth), f'(vset_inter {L} {O})', pr)
                yield setop_case(ctx, 'difference', labels, other, lambda: src.difference(oth), f'(vset_diff {L} {O})', pr)


# ----------------------------------------------------------------------------- datetime-typed indices
def dt_classes():
    import static_frame as sf
    return {
        'D': (sf.IndexDate, sf.IndexDateGO, ['2020-01-01', '2020-01-02', '2020-02-29', '1969-12-31', '2021-12-31', '2020-01-03', '1999-07-04']),
        'M': (sf.IndexYearMonth, sf.IndexYearMonthGO, ['2020-01', '2020-02', '1969-12', '2021-12', '2000-06']),
        'Y': (sf.IndexYear, sf.IndexYearGO, ['2020', '2021', '1969', '1970', '2000']),
        's': (sf.IndexSecond, sf.IndexSecondGO, ['2020-01-01T00:00:00', '2020-01-01T00:00:01', '1969-12-31T23:59:59', '2020-06-01T12:30:00']),
    }


def dt_forms(unit, s, rng):
    '''Python forms of the same datetime label.'''
    forms = [s, np.datetime64(s, unit)]
    if unit == 'D':
        forms.append(datetime.date.fromisoformat(s))
    if unit == 'Y':
        forms.append(int(s))
    return rng.choice(forms)


def datetime_cases(ctx):
    C = dt_classes()
    for _ in range(ctx.n(60, 800)):
        unit = ctx.rng.choice(sorted(C))
        cls, cls_go, pool = C[unit]
        n = ctx.rng.choice([0, 1, 2, 3, 4])
        dup = ctx.rng.random() < 0.25
        strs = [ctx.rng.choice(pool) for _ in range(n)] if dup else ctx.rng.sample(pool, min(n, len(pool)))
        canon_labels = [np.datetime64(s, unit) for s in strs]
        given = [dt_forms(unit, s, ctx.rng) for s in strs]
        probe_strs = list(dict.fromkeys(strs))[:4] + [p for p in pool if p not in strs][:2]
        probe_keys = [dt_forms(unit, s, ctx.rng) for s in probe_strs]
        if unit == 'Y':
            probe_keys = [k if not isinstance(k, int) else str(k) for k in probe_keys]   # an int key is a position-like key, not a year label
        probe_lits = lit.lst([vlit(np.datetime64(s, unit)) for s in probe_strs])
        go = ctx.rng.random() < 0.5
        klass = cls_go if go else cls
        try:
            ix = klass(given)
            obs = f'(Ok {obs_lit(ix, probe_keys)})'
        except Exception as e:  # noqa
            ix = None
            obs = f'(Err {lit.s(lit.err_class(e))})'
        L = vl(canon_labels)
        ctx.count(f'dt:{unit}', 'dt:accepted' if ix is not None else 'dt:rejected')
        yield Case('api:datetime-index', {'cls': klass.__name__, 'labels': repr(given), 'probes': repr(probe_keys), 'observed': obs[:300]},
                   m=f'chk_M_index {L} {probe_lits} {obs}', s=f'chk_S_index {L} {probe_lits} {obs}', tags={'cls': klass.__name__},
                   nontrivial=n >= 2)
        if go and ix is not None:
            # grow it: appended values in any form; duplicates must be rejected
            adds = [ctx.rng.choice(pool) for _ in range(ctx.rng.choice([1, 2, 4]))]
            ops, outs = [], []
            for s in adds:
                v = dt_forms(unit, s, ctx.rng)
                if ctx.rng.random() < 0.3:
                    len(ix)
                    ops.append('VTouch')
                    outs.append('(Ok tt)')
                try:
                    ix.append(v)
                    outs.append('(Ok tt)')
                except Exception as e:  # noqa
                    outs.append(f'(Err {lit.s(lit.err_class(e))})')
                ops.append(f'(VAppend {vlit(np.datetime64(s, unit))})')
            obs2 = reading(obs_lit_cold, ix, probe_keys)
            I, O, R = f'(inl {L})', lit.lst(ops), lit.lst(outs)
            yield Case('api:datetime-go', {'cls': klass.__name__, 'labels': repr(given), 'appended': repr(adds), 'outcomes': outs, 'observed': obs2[:300]},
                       m=f'chk_M_go {I} {O} {probe_lits} {R} {obs2}', s=f'chk_S_go {I} {O} {probe_lits} {R} {obs2}', tags={'cls': klass.__name__})


# ----------------------------------------------------------------------------- hierarchical indices
def ll(labels):
    return lit.lst([vl(list(x)) for x in labels])


def hobs_lit(ih, probes):
    n = len(ih)
    rows = [list(r) for r in ih.values.tolist()] if n else []
    return ('(mk_hobs ' + ' '.join([
        ll(rows), ll([iter_items(x) for x in ih]), ll([iter_items(x) for x in reversed(ih)]), lit.z(n),
        lit.lst([lit.z(p) for p in ih.positions.tolist()]), ll([iter_items(ih.iloc[i]) for i in range(n)]),
        lit.lst([rz(lambda k=k: ih.loc_to_iloc(tuple(k))) for k in probes]),
        lit.lst([lit.b(bool(tuple(k) in ih)) for k in probes]),
    ]) + ')')


def rhobs_lit(build, probes):
    try:
        ih = build()
    except Exception as e:  # noqa
        return f'(Err {lit.s(lit.err_class(e))})', None
    return f'(Ok {reading(hobs_lit, ih, probes)})', ih


def hier_case(ctx, route, build, labels, probes, stratum, model=True):
    obs, ih = rhobs_lit(lambda: build(labels), probes)
    L, P = ll(labels), ll(probes)
    depth = len(labels[0]) if labels else 0
    ctx.count(f'hier:route:{route}', f'hier:n={min(len(labels), 9)}', f'hier:depth={depth}', 'hier:accepted' if ih is not None else 'hier:rejected')
    return [Case(stratum, {'route': route, 'labels': repr(labels), 'probes': repr(probes), 'observed': obs[:400]},
                 m=f'chk_M_hier {L} {P} {obs}' if model else None, s=f'chk_S_hier {L} {P} {obs}',
                 tags={'route': route}, nontrivial=len(labels) >= 2)]


def hier_routes():
    import static_frame as sf
    return {
        'IH.from_labels': lambda ls: sf.IndexHierarchy.from_labels(ls),
        'IHGO.from_labels': lambda ls: sf.IndexHierarchyGO.from_labels(ls),
        'IH.from_labels(generator)': lambda ls: sf.IndexHierarchy.from_labels(tuple(x) for x in ls),
        'IH.from_labels(array)': lambda ls: sf.IndexHierarchy.from_labels(np.array(ls, dtype=object)),
    }


def hier_probes(rng, labels, alphabet_rows):
    probes = [list(x) for x in labels]
    rng.shuffle(probes)
    probes = probes[:5]
    extra = [list(x) for x in rng.sample(alphabet_rows, min(3, len(alphabet_rows)))]
    short = [list(labels[0][:-1])] if labels and len(labels[0]) > 1 else []
    long_ = [list(labels[0]) + [labels[0][-1]]] if labels else []
    return probes + extra + short + long_


def hier_small_cases(ctx):
    R = hier_routes()
    rows2 = [(a, b) for a in ('a', 'b') for b in (1, 2)]
    rows3 = [(a, b, c) for a in ('a', 'b') for b in ('x', 'y') for c in (1, 2)]
    plan = [(rows2, 3 if ctx.tier == 'quick' else 4), (rows3, 2 if ctx.tier == 'quick' else 3)]
    names = ['IH.from_labels'] if ctx.tier == 'quick' else ['IH.from_labels', 'IHGO.from_labels']
    for rows, maxlen in plan:
        for n in range(1, maxlen + 1):
            for labels in itertools.product(rows, repeat=n):
                probes = [list(r) for r in rows[:6]] + [list(rows[0][:-1]), list(rows[0]) + [rows[0][-1]], list(labels[-1]) + ['zz']]
                for name in names:
                    yield from hier_case(ctx, name, R[name], [tuple(x) for x in labels], probes, 'api:hier-small')
    # a tuple as a COMPONENT of a hierarchical label: regression input of the repaired finding C02-hier-tuple-component (b79f40c)
    for labels in ([('a', (0, 1)), ('b', (0, 1))], [('c', 'x', 'y'), ('c', 'x', (0, 1))]):
        yield from hier_case(ctx, 'IH.from_labels', R['IH.from_labels'], labels, [list(labels[0]), list(labels[1])], 'api:hier-tuple-component')
    # malformed: inconsistent depth, depth 1, empty
    for labels in ([('a', 1), ('b',)], [('a',), ('b',)], [('a', 1), ('a', 2, 3)], []):
        yield from hier_case(ctx, 'IH.from_labels', R['IH.from_labels'], labels, [['a', 1]], 'api:hier-small')


def random_tree_labels(rng, depth, pools):
    '''A tree-ordered, duplicate-free label table.'''
    def rec(d):
        ks = rng.sample(pools[d], rng.randint(1, min(3, len(pools[d]))))
        if d == depth - 1:
            return [(k,) for k in ks]
        out = []
        for k in ks:
            out.extend((k,) + r for r in rec(d + 1))
        return out
    return rec(0)


def hier_random_cases(ctx):
    import static_frame as sf
    R = hier_routes()
    names = sorted(R)
    pools_by = [['a', 'b', 'c', 'd'], [1, 2, 3, 'x'], [True, 'y', 5, (0, 1)], [10, 20, 30]]
    for _ in range(ctx.n(70, 2000)):
        depth = ctx.rng.choice([2, 2, 3, 3, 4])
        pools = pools_by[:depth]
        labels = random_tree_labels(ctx.rng, depth, pools)[:12]
        r = ctx.rng.random()
        mut = 'none'
        if r < 0.2 and len(labels) >= 2:
            i, j = ctx.rng.sample(range(len(labels)), 2)
            labels[i], labels[j] = labels[j], labels[i]
            mut = 'swap'
        elif r < 0.3:
            labels.insert(ctx.rng.randrange(len(labels) + 1), ctx.rng.choice(labels))
            mut = 'dup'
        elif r < 0.4:
            ctx.rng.shuffle(labels)
            mut = 'shuffle'
        rows = [tuple(ctx.rng.choice(p) for p in pools) for _ in range(4)]
        probes = hier_probes(ctx.rng, labels, rows)
        name = ctx.rng.choice(names)
        ctx.count(f'hier:mut={mut}')
        yield from hier_case(ctx, name, R[name], labels, probes, 'api:hier-random')
    # other construction routes: the expected table is computed by the harness, judged by S only
    for _ in range(ctx.n(30, 400)):
        a = ctx.rng.sample(['a', 'b', 'c', 1, 2], ctx.rng.randint(1, 3))
        b = ctx.rng.sample([1, 2, 3, 'x', 'y'], ctx.rng.randint(1, 3))
        c = ctx.rng.sample([True, 5, 'q'], ctx.rng.randint(1, 2))
        levels = [a, b] if ctx.rng.random() < 0.6 else [a, b, c]
        table = [tuple(x) for x in itertools.product(*levels)]
        probes = hier_probes(ctx.rng, table, table[:2])
        yield from hier_case(ctx, 'IH.from_product', lambda ls: sf.IndexHierarchy.from_product(*levels), table, probes, 'api:hier-routes', model=False)
        tree = {k: list(ctx.rng.sample(b, ctx.rng.randint(1, len(b)))) for k in a}
        table = [(k, v) for k, vs in tree.items() for v in vs]
        probes = hier_probes(ctx.rng, table, table[:2])
        yield from hier_case(ctx, 'IH.from_tree', lambda ls: sf.IndexHierarchy.from_tree(tree), table, probes, 'api:hier-routes', model=False)
        yield from hier_case(ctx, 'IH.from_index_items', lambda ls: sf.IndexHierarchy.from_index_items((k, sf.Index(vs)) for k, vs in tree.items()), table, probes, 'api:hier-routes', model=False)
        src = sf.Index(b)
        table = [('L', v) for v in b]
        yield from hier_case(ctx, 'Index.level_add', lambda ls: src.level_add('L'), table, hier_probes(ctx.rng, table, table[:1]), 'api:hier-routes', model=False)


def hier_derive_cases(ctx):
    '''Indices derived from a hierarchical index: the expected label table is computed from the source table; S decides
    whether that table must be rejected (not a tree in that order / duplicates) or be an exact bijection.'''
    import static_frame as sf
    pools_by = [['a', 'b', 'c'], [1, 2, 3], ['x', 'y']]
    for _ in range(ctx.n(30, 900)):
        depth = ctx.rng.choice([2, 2, 3])
        table = random_tree_labels(ctx.rng, depth, pools_by[:depth])[:9]
        n = len(table)
        cls = ctx.rng.choice([sf.IndexHierarchy, sf.IndexHierarchyGO])
        src = cls.from_labels(table)
        rows = [tuple(ctx.rng.choice(p) for p in pools_by[:depth]) for _ in range(2)]

        def emit(name, build, expect, extra=None):
            probes = hier_probes(ctx.rng, expect if expect else table, rows)
            obs, ih = rhobs_lit(build, probes)
            ctx.count(f'hier-derive:{name}', 'hier-derive:accepted' if ih is not None else 'hier-derive:rejected')
            desc = {'derivation': name, 'source': repr(table), 'expected_table': repr(expect), 'probes': repr(probes), 'observed': obs[:300]}
            desc.update(extra or {})
            return Case('api:hier-derive', desc, s=f'chk_S_hier {ll(expect)} {ll(probes)} {obs}', tags={'derivation': name})
        ps = [ctx.rng.randrange(n) for _ in range(ctx.rng.choice([1, 2, 3]))]
        if ctx.rng.random() < 0.5:
            ps = sorted(set(ps))
        if len(ps) >= 1:
            yield emit('iloc[list]', lambda: src.iloc[ps], [table[p] for p in ps], {'key': repr(ps)})
        k = slice(ctx.rng.choice([None, 0, 1, 2]), ctx.rng.choice([None, n, n - 1, 2]), ctx.rng.choice([None, 1, 2, -1]))
        if len(table[k]) >= 1:
            yield emit('iloc[slice]', lambda: src.iloc[k], list(table[k]), {'key': repr(k)})
        mask = [ctx.rng.random() < 0.6 for _ in range(n)]
        if any(mask):
            yield emit('iloc[mask]', lambda: src.iloc[np.array(mask)], [x for x, m in zip(table, mask) if m], {'key': repr(mask)})
        sh = ctx.rng.randrange(-n, n + 1)
        yield emit('roll', lambda: src.roll(sh), [table[(i - sh) % n] for i in range(n)], {'shift': sh})
        yield emit('level_add', lambda: src.level_add('L'), [('L',) + x for x in table])
        yield emit('copy', lambda: src.copy(), list(table))
        yield emit('IndexHierarchy(ih)', lambda: sf.IndexHierarchy(src), list(table))
        yield emit('relabel(func)', lambda: src.relabel(lambda x: tuple(x[:-1]) + (str(x[-1]) + '!',)), [x[:-1] + (str(x[-1]) + '!',) for x in table])
        # flat / level_drop give flat indices
        probes = [tuple(x) for x in table[:4]] + [rows[0]]
        obs, ix = robs_lit(lambda: src.flat(), probes)
        yield Case('api:hier-derive', {'derivation': 'flat', 'source': repr(table), 'observed': obs[:300]},
                   m=f'chk_M_index {vl([tuple(x) for x in table])} {vl(probes)} {obs}',
                   s=f'chk_S_index {vl([tuple(x) for x in table])} {vl(probes)} {obs}', tags={'derivation': 'flat'})
        if depth == 2:
            inner = [x[1] for x in table]
            probes = inner[:3] + ['zz']
            obs, ix = robs_lit(lambda: src.level_drop(1), probes)
            yield Case('api:hier-derive', {'derivation': 'level_drop(1)', 'source': repr(table), 'observed': obs[:300]},
                       m=f'chk_M_index {vl(inner)} {vl(probes)} {obs}', s=f'chk_S_index {vl(inner)} {vl(probes)} {obs}', tags={'derivation': 'level_drop'})


REALISE = {'values': lambda ih: ih.values, 'reversed': lambda ih: list(reversed(ih)), 'iloc': lambda ih: ih.iloc[0] if len(ih) else None,
           'display': lambda ih: repr(ih), 'len': lambda ih: len(ih), 'in': lambda ih: ('zz', 0) in ih, 'none': lambda ih: None}
IH_DERIVE = {
    'IndexHierarchy(go)': lambda ih: __import__('static_frame').IndexHierarchy(ih),
    'IndexHierarchyGO(go)': lambda ih: __import__('static_frame').IndexHierarchyGO(ih),
    'go.rename()': lambda ih: ih.rename('nm'),
    'go.copy()': lambda ih: ih.copy(),
    'go.iloc[:]': lambda ih: ih.iloc[:],
}


def level_drop_outcome(fid, table, exp, ih, reader_error, obs=''):
    '''KIND of outcome of a level_drop in the class of a known finding (only the recorded kind is excused).'''
    try:
        if fid == 'C02-level-drop-inner-duplicates':
            if reader_error is not None:
                return 'reader-raises:ValueError' if str(reader_error).startswith('ValueError: Output array is the wrong shape') else 'other'
            if ih is None:
                return 'other'
            rows = [tuple(iter_items(x)) for x in ih]
            return 'deduplicated' if (rows == list(dict.fromkeys(exp)) and len(ih) == len(rows) and [tuple(r) for r in ih.values.tolist()] == rows) else 'other'
        if fid == 'C02-level-drop-outer-offsets':
            if reader_error is not None:
                return 'reader-raises:ValueError' if str(reader_error).startswith('ValueError: Output array is the wrong shape') else 'other'
            if ih is None:
                # recorded: the second-depth labels of ALL groups are concatenated into one new root Index, so a label that
                # ends one group and starts the next (a valid, contiguous table) is refused as non-unique
                seconds = []
                for x in table:
                    if not seconds or seconds[-1] != (x[0], x[1]):
                        seconds.append((x[0], x[1]))
                merged = [b for _, b in seconds]
                return 'rejected-merged-second-depth:ErrorInitIndex' if (obs == '(Err "ErrorInitIndex")' and len(set(merged)) != len(merged)) else 'other'
            rows = [tuple(iter_items(x)) for x in ih]
            if rows != [tuple(x) for x in exp] or len(ih) != len(rows) or [tuple(r) for r in ih.values.tolist()] != rows:
                return 'other'
            starts = {}
            for i, x in enumerate(table):
                starts.setdefault(x[0], i)
            # recorded: every label is looked up to its position RELATIVE to the start of its old outermost group
            want = [i - starts[x[0]] for i, x in enumerate(table)]
            got = [int(ih.loc_to_iloc(r)) for r in rows]
            return 'offsets-per-parent' if got == want else 'other'
    except Exception:  # noqa
        return 'other'
    return 'other'


def more_hier_cases(ctx):
    '''Routes of index_hierarchy.py that construct or derive a hierarchical index and were not reached by the other strata
    (coverage-guided).  Expected tables are computed from the source table by the harness; S decides accept / reject and
    checks the complete observation.'''
    import copy
    import pickle
    import static_frame as sf
    IH = sf.IndexHierarchy
    pools_by = [['a', 'b', 'c'], [1, 2, 3], ['x', 'y']]
    for _ in range(ctx.n(16, 400)):
        depth = ctx.rng.choice([2, 3, 3])
        pools = pools_by[:depth]
        table = random_tree_labels(ctx.rng, depth, pools)[:8]
        n = len(table)
        cls = ctx.rng.choice([sf.IndexHierarchy, sf.IndexHierarchyGO])
        mk = lambda: cls.from_labels(table)
        rows = [tuple(ctx.rng.choice(p) for p in pools) for _ in range(2)]

        def emit(name, fn, expect, how='exact', extra=None, tags=None, probes=None, model=None):
            pr = probes if probes is not None else hier_probes(ctx.rng, expect if expect else table, rows)
            tags = dict(tags or {})
            try:
                obs, ih = rhobs_lit(lambda: fn(mk()), pr)
            except ReaderRaised as e:
                if 'finding' in tags:
                    tags['outcome'] = level_drop_outcome(tags['finding'], table, expect, None, e)
                    tags = excuse_only_recorded(tags)
                return Case('api:hier-more', {'derivation': 'more:' + name, 'source': repr(table), 'expected_table': repr(expect), 'error': str(e)},
                            py_fail=f'a reader of the derived index raised: {e}', tags=dict({'derivation': 'more:' + name}, **tags))
            if 'finding' in tags:
                tags['outcome'] = level_drop_outcome(tags['finding'], table, expect, ih, None, obs)
                tags = excuse_only_recorded(tags)
            ctx.count(f'hier-more:{name}', 'hier-more:accepted' if ih is not None else 'hier-more:rejected')
            desc = {'derivation': 'more:' + name, 'source': repr(table), 'expected_table': repr(expect), 'observed': obs[:300]}
            desc.update(extra or {})
            chk = {'exact': f'chk_S_hier {ll(expect)} {ll(pr)} {obs}', 'set': f'chk_S_hier_set {ll(expect)} {ll(pr)} {obs}'}[how]
            return Case('api:hier-more', desc, m=(model(ll(pr), obs) if model else None), s=chk, tags=dict({'derivation': 'more:' + name}, **(tags or {})))
        # construction routes
        shuffled = list(table)
        ctx.rng.shuffle(shuffled)
        yield emit('from_labels(reorder_for_hierarchy)', lambda s: cls.from_labels(shuffled, reorder_for_hierarchy=True), table, 'set', {'given': repr(shuffled)})
        tok = '-'
        cont = [tuple(tok if (i and x[d] == table[i - 1][d] and all(x[e] == table[i - 1][e] for e in range(d))) else x[d] for d in range(depth)) for i, x in enumerate(table)]
        yield emit('from_labels(continuation_token)', lambda s: cls.from_labels(cont, continuation_token=tok), table, extra={'given': repr(cont)})
        yield emit('from_labels_delimited', lambda s: cls.from_labels_delimited([' '.join(repr(c) for c in x) for x in table]), table)
        yield emit('deepcopy', lambda s: copy.deepcopy(s), table)
        yield emit('pickle', lambda s: pickle.loads(pickle.dumps(s)), table)
        # selection
        k = slice(ctx.rng.choice([None, 0, 1]), ctx.rng.choice([None, n, n - 1]), ctx.rng.choice([None, 1, 2, -1]))
        if len(table[k]):
            yield emit('ih[slice]', lambda s: s[k], list(table[k]), extra={'key': repr(k)})
        ps = sorted({ctx.rng.randrange(n) for _ in range(ctx.rng.choice([1, 2, 3]))}, reverse=ctx.rng.random() < 0.3)
        yield emit('ih[list]', lambda s: s[ps], [table[p] for p in ps], extra={'key': repr(ps)})
        yield emit('loc[list of labels]', lambda s: s.loc[[table[p] for p in ps]], [table[p] for p in ps], extra={'key': repr(ps)})
        outer = ctx.rng.choice(table)[0]
        yield emit('loc[HLoc[outer]]', lambda s: s.loc[sf.HLoc[outer]], [x for x in table if x[0] == outer], extra={'key': repr(outer)})
        inner = ctx.rng.choice(table)[-1]
        sel = [x for x in table if x[-1] == inner]
        yield emit('loc[HLoc[..., inner]]', lambda s: s.loc[sf.HLoc[tuple([slice(None)] * (depth - 1) + [inner])]], sel, extra={'key': repr(inner)})
        i0, i1 = sorted([ctx.rng.randrange(n), ctx.rng.randrange(n)])
        yield emit('loc[label:label]', lambda s: s.loc[table[i0]:table[i1]], table[i0:i1 + 1], extra={'key': repr((table[i0], table[i1]))})
        f = sf.Frame.from_element(0, index=(0,), columns=mk())
        if n > 1:
            yield emit('Frame.drop.loc[:, label].columns', lambda s: f.drop.loc[:, table[i0]].columns, [x for i, x in enumerate(table) if i != i0])
        if len(set(ps)) < n:
            yield emit('Frame.drop.iloc[:, list].columns', lambda s: f.drop.iloc[:, ps].columns, [x for i, x in enumerate(table) if i not in ps])
        yield emit('Frame.loc[:, HLoc].columns', lambda s: f.loc[:, sf.HLoc[outer]].columns, [x for x in table if x[0] == outer])
        # reshaping
        yield emit('sort', lambda s: s.sort(), sorted(table))
        yield emit('sort(descending)', lambda s: s.sort(ascending=False), sorted(table, reverse=True))
        order = list(range(depth))
        ctx.rng.shuffle(order)
        yield emit('rehierarch', lambda s: s.rehierarch(order), [tuple(x[d] for d in order) for x in table], 'set', {'depth_map': repr(order)})
        src, dst = table[i0], table[i0][:-1] + ('Z',)
        yield emit('relabel(dict)', lambda s: s.relabel({src: dst}), [dst if x == src else x for x in table])
        yield emit('astype[inner](float)', lambda s: s.astype[depth - 2](float) if depth == 3 else s.astype[1](float), table)
        yield emit('astype(str)', lambda s: s.astype(str), [tuple(str(c) for c in x) for x in table])
        if depth == 3:
            for c in (1, -1):
                exp = [x[c:] for x in table] if c > 0 else [x[:c] for x in table]
                dup = len(set(exp)) != len(exp)
                tg = None
                if c < 0 and dup:
                    tg = {'finding': 'C02-level-drop-inner-duplicates'}
                elif c > 0 and len({x[0] for x in table}) >= 2 and py_valid_table(exp):
                    tg = {'finding': 'C02-level-drop-outer-offsets'}
                yield emit(f'level_drop({c})', lambda s, c=c: s.level_drop(c), exp, tags=tg,
                           model=(lambda P, obs: f'chk_M_level_drop1 {ll(table)} {P} {obs}') if c == 1 else None)
            flat_exp = [x[2] for x in table]
            probes = flat_exp[:3] + ['zz']
            obs, ix = robs_lit(lambda: mk().level_drop(2), probes)
            yield Case('api:hier-more', {'derivation': 'more:level_drop(2)', 'source': repr(table), 'observed': obs[:300]},
                       m=f'chk_M_index {vl(flat_exp)} {vl(probes)} {obs}', s=f'chk_S_index {vl(flat_exp)} {vl(probes)} {obs}', tags={'derivation': 'more:level_drop'})
        # set operations with another hierarchy
        other = random_tree_labels(ctx.rng, depth, pools)[:4]
        O = cls.from_labels(other)
        both = table + [x for x in other if x not in table]
        yield emit('union', lambda s: s.union(O), both, 'set', {'other': repr(other)})
        inter = [x for x in table if x in other]
        if inter:
            yield emit('intersection', lambda s: s.intersection(O), inter, 'set', {'other': repr(other)})
        diff = [x for x in table if x not in other]
        if diff:
            yield emit('difference', lambda s: s.difference(O), diff, 'set', {'other': repr(other)})
        yield emit('union(self)', lambda s: s.union(s), table, 'set')
        cnt = ctx.rng.choice([1, n])
        pr = hier_probes(ctx.rng, table, rows)
        obs, ih = rhobs_lit(lambda: mk().sample(cnt, seed=ctx.rng.randrange(50)), pr)
        yield Case('api:hier-more', {'derivation': 'more:sample', 'source': repr(table), 'count': cnt, 'observed': obs[:300]},
                   s=f'match {obs} with Ok o => chk_S_hier (h_values o) {ll(pr)} {obs} && lsubsetb (map lab_canon (h_values o)) (map lab_canon {ll(table)}) && (zlen (h_values o) =? {cnt}) | Err _ => false end',
                   tags={'derivation': 'more:sample'})
        yield emit('fillna', lambda s: s.fillna(0), table)
        # IndexHierarchyGO.extend with another hierarchy: all or nothing
        ext = [(ctx.rng.choice(['d', 'e', table[-1][0], table[0][0]]),) + x[1:] for x in random_tree_labels(ctx.rng, depth, pools)[:3]]
        ext = [x for i, x in enumerate(ext) if x not in ext[:i]]
        try:
            E = IH.from_labels(ext)
        except Exception:  # noqa
            E = None
        if E is not None:
            g = sf.IndexHierarchyGO.from_labels(table)
            if ctx.rng.random() < 0.5:
                g.values
            try:
                g.extend(E)
                accepted = True
            except Exception:  # noqa
                accepted = False
            expect = table + ext if accepted else table
            pr = hier_probes(ctx.rng, table + ext, rows)
            obs = f'(Ok {reading(hobs_lit, g, pr)})'
            ctx.count('hier-more:IHGO.extend', 'hier-more:extend-accepted' if accepted else 'hier-more:extend-rejected')
            yield Case('api:hier-more', {'derivation': 'more:IHGO.extend', 'source': repr(table), 'extended_with': repr(ext), 'accepted': accepted, 'observed': obs[:300]},
                       s=f'chk_S_hier {ll(expect)} {ll(pr)} {obs}', tags={'derivation': 'more:IHGO.extend'})
        # compound keys of loc_to_iloc: the answers must agree with the element lookups (two implementation answers compared)
        s0 = mk()
        keys = [table[p] for p in ps]
        try:
            elem = [s0.loc_to_iloc(k) for k in keys]
            a1 = list(s0.loc_to_iloc(list(keys)))
            a2 = list(s0.loc_to_iloc(IH.from_labels(keys))) if len(keys) and _tree_ok(keys) else elem
            mask = np.array([i in ps for i in range(n)])
            a3 = sorted(int(x) for x in s0.loc_to_iloc(mask))
            a4 = s0.loc_to_iloc(slice(table[i0], table[i1]))
            bad = None
            if a1 != elem or a2 != elem:
                bad = f'loc_to_iloc(list / IndexHierarchy key) {a1} / {a2} differs from the element lookups {elem}'
            elif a3 != sorted(ps):
                bad = f'loc_to_iloc(mask) gives {a3}, mask selects {sorted(ps)}'
            elif (a4.start, a4.stop) != (i0, i1 + 1):
                bad = f'loc_to_iloc(label slice) gives {a4}, expected slice({i0}, {i1 + 1})'
        except Exception as e:  # noqa
            bad = f'compound loc_to_iloc raised {type(e).__name__}: {str(e)[:80]}'
        yield Case('api:hier-more', {'derivation': 'more:loc_to_iloc(compound keys)', 'source': repr(table), 'keys': repr(keys), 'slice': repr((table[i0], table[i1]))},
                   py_fail=bad, tags={'derivation': 'more:loc_to_iloc-compound'})
    # deterministic witnesses of the two level_drop findings (every run)
    for table, c, fid in (([('c', 3, 'y'), ('a', 2, 'x'), ('a', 2, 'y')], 1, 'C02-level-drop-outer-offsets'),
                          ([('a', 1, 'x'), ('b', 2, 'x'), ('b', 2, 'y'), ('b', 3, 'x')], 1, 'C02-level-drop-outer-offsets'),
                          ([('a', 1, 'x'), ('a', 1, 'y'), ('b', 1, 'y')], -1, 'C02-level-drop-inner-duplicates')):
        exp = [x[c:] for x in table] if c > 0 else [x[:c] for x in table]
        pr = [list(x) for x in exp]
        try:
            obs, ih = rhobs_lit(lambda: sf.IndexHierarchy.from_labels(table).level_drop(c), pr)
            yield Case('api:hier-more', {'derivation': f'more:level_drop({c})', 'source': repr(table), 'expected_table': repr(exp), 'observed': obs[:300]},
                       m=f'chk_M_level_drop1 {ll(table)} {ll(pr)} {obs}' if c == 1 else None,
                       s=f'chk_S_hier {ll(exp)} {ll(pr)} {obs}',
                       tags=excuse_only_recorded({'derivation': 'more:level_drop', 'finding': fid, 'outcome': level_drop_outcome(fid, table, exp, ih, None)}))
        except ReaderRaised as e:
            yield Case('api:hier-more', {'derivation': f'more:level_drop({c})', 'source': repr(table), 'error': str(e)},
                       py_fail=f'a reader of the derived index raised: {e}',
                       tags=excuse_only_recorded({'derivation': 'more:level_drop', 'finding': fid, 'outcome': level_drop_outcome(fid, table, exp, None, e)}))
    # zero-length and typed-level constructions
    for names in (('x', 'y'), ('x', 'y', 'z')):
        for klass in (sf.IndexHierarchy, sf.IndexHierarchyGO):
            pr = [['a', 1], ['a']]
            obs, ih = rhobs_lit(lambda: klass.from_names(names), pr)
            yield Case('api:hier-more', {'derivation': 'more:from_names', 'names': repr(names), 'observed': obs[:300]}, s=f'chk_S_hier_empty {ll(pr)} {obs}', tags={'derivation': 'more:from_names'})
            obs, ih = rhobs_lit(lambda: klass.from_labels(np.empty((0, len(names)), dtype=object)), pr)
            yield Case('api:hier-more', {'derivation': 'more:from_labels(empty 2-D array)', 'depth': len(names), 'observed': obs[:300]}, s=f'chk_S_hier_empty {ll(pr)} {obs}', tags={'derivation': 'more:from_labels-empty'})
    for _ in range(ctx.n(6, 80)):
        days = ctx.rng.sample(range(0, 40), ctx.rng.choice([1, 2, 3]))
        if ctx.rng.random() < 0.3:
            days.append(days[0])
        outs_ = sorted(ctx.rng.sample(['a', 'b', 'c'], ctx.rng.choice([1, 2])))
        given = [(o, str(np.datetime64('2020-01-01') + d)) for o in outs_ for d in days]
        table = [(o, np.datetime64(s)) for o, s in given]
        pr = [list(x) for x in table[:4]] + [['zz', np.datetime64('2020-01-01')]]
        obs, ih = rhobs_lit(lambda: sf.IndexHierarchy.from_labels(given, index_constructors=(sf.Index, sf.IndexDate)), pr)
        yield Case('api:hier-more', {'derivation': 'more:from_labels(index_constructors=IndexDate)', 'labels': repr(given), 'observed': obs[:300]},
                   m=f'chk_M_hier {ll(table)} {ll(pr)} {obs}', s=f'chk_S_hier {ll(table)} {ll(pr)} {obs}', tags={'derivation': 'more:typed-level'})


def py_valid_table(rows):
    '''Input-side reading of "distinct and a tree in the given order" (used ONLY to put a case into the class of a known
    finding; verdicts are computed in Coq by S_from_labels).'''
    rows = [tuple(r) for r in rows]
    if len(set(rows)) != len(rows) or not rows:
        return False
    d = len(rows[0])
    for p in range(1, d):
        seen, prev = set(), None
        for r in rows:
            k = r[:p]
            if k != prev and k in seen:
                return False
            seen.add(k)
            prev = k
    return True


def _tree_ok(keys):
    try:
        import static_frame as sf
        sf.IndexHierarchy.from_labels(keys)
        return True
    except Exception:  # noqa
        return False


def views_cases(ctx):
    '''Further views of the label sequence that the main observation does not read (iter_label, values_at_depth,
    label_widths_at_depth, unique, shape / ndim / size, compound keys on a map-less index): they must describe the same
    labels in the same order (the answers of the implementation are compared with its own values / iteration).'''
    import static_frame as sf

    def flat_views(ix):
        vals = iter_items(iter(ix))
        n = len(vals)
        if iter_items(ix.iter_label()) != vals:
            return 'iter_label() differs from iteration'
        if (ix.shape, ix.ndim, ix.size) != ((n,), 1, n):
            return f'shape / ndim / size {(ix.shape, ix.ndim, ix.size)} for {n} labels'
        if arr_items(ix.values_at_depth(0)) != arr_items(ix.values) or arr_items(ix.unique()) != arr_items(ix.values):
            return 'values_at_depth(0) / unique() differ from values'
        if [(k.item() if isinstance(k, np.generic) and not isinstance(k, np.datetime64) else k, w) for k, w in ix.label_widths_at_depth(0)] != [(v, 1) for v in vals]:
            return 'label_widths_at_depth(0) is not one unit per label'
        if [int(p) for p, _ in ix.iter_label().apply_iter_items(lambda x: x)] != list(range(n)) if hasattr(ix.iter_label(), 'apply_iter_items') else False:
            return 'iter_label items are not numbered 0..n-1'
        return None

    def hier_views(ih):
        rows = [tuple(iter_items(x)) for x in ih]
        n, depth = len(rows), ih.depth
        if [tuple(iter_items(x)) for x in ih.iter_label()] != rows:
            return 'iter_label() differs from iteration'
        if (ih.shape, ih.ndim, ih.size) != ((n, depth), 2, n * depth):
            return f'shape / ndim / size {(ih.shape, ih.ndim, ih.size)} for {n} labels of depth {depth}'
        for d in range(depth):
            col = [r[d] for r in rows]
            if iter_items(ih.values_at_depth(d)) != col or iter_items(ih.iter_label(d)) != col:
                return f'values_at_depth({d}) / iter_label({d}) differ from the labels'
            widths = [(k.item() if isinstance(k, np.generic) else k, w) for k, w in ih.label_widths_at_depth(d)]
            flat = [k for k, w in widths for _ in range(w)]
            if flat != col:
                return f'label_widths_at_depth({d}) expands to {flat}, labels are {col}'
        return None
    pools_by = [['a', 'b', 'c'], [1, 2, 3], ['x', 'y']]
    for it in range(ctx.n(40, 500)):
        which = ctx.rng.choice(['flat', 'flat-go', 'auto', 'auto-go', 'date', 'hier', 'hier-go', 'hier-go-cold'])
        desc = {'kind': which}
        try:
            if which in ('flat', 'flat-go'):
                labels = draw_labels(ctx.rng, ctx.rng.choice(['int', 'str', 'mixed', 'float']), ctx.rng.choice([0, 1, 3, 5]), False)
                ix = (sf.Index if which == 'flat' else sf.IndexGO)(labels)
                if which == 'flat-go':
                    ix.append('more')
                desc['labels'] = repr(labels)
                bad = flat_views(ix)
            elif which in ('auto', 'auto-go'):
                n = ctx.rng.choice([0, 1, 4])
                ix = sf.Series(tuple(range(n))).index if which == 'auto' else sf.FrameGO(np.zeros((1, n))).columns
                if which == 'auto-go':
                    ix.append(n)
                    n += 1
                desc['n'] = n
                bad = flat_views(ix)
                if bad is None and n >= 2:
                    a, b = sorted(ctx.rng.sample(range(n), 2))
                    mask = np.array([ctx.rng.random() < 0.5 for _ in range(n)])
                    got = (ix.loc_to_iloc(slice(a, b)), ix.loc_to_iloc(slice(None)), sorted(int(x) for x in ix.loc_to_iloc(mask)), list(ix.loc_to_iloc([a, b])))
                    want = (slice(a, b + 1), slice(0, n), [i for i in range(n) if mask[i]], [a, b])
                    if got != want:
                        bad = f'compound keys on a map-less index: {got}, expected {want}'
                    for key in (slice(a, n), [a, n]):
                        try:
                            r = ix.loc_to_iloc(key)
                            bad = bad or f'loc_to_iloc({key}) with a label that is not held returned {r}'
                        except (KeyError, sf.LocInvalid if hasattr(sf, 'LocInvalid') else KeyError):
                            pass
            elif which == 'date':
                ix = sf.IndexDate.from_date_range('2020-01-01', f'2020-01-{ctx.rng.randint(1, 20):02d}')
                bad = flat_views(ix)
            else:
                depth = ctx.rng.choice([2, 3])
                table = random_tree_labels(ctx.rng, depth, pools_by[:depth])[:7]
                desc['table'] = repr(table)
                if which == 'hier':
                    ih = sf.IndexHierarchy.from_labels(table)
                else:
                    ih = sf.IndexHierarchyGO.from_labels(table)
                    if which == 'hier-go-cold':
                        ih.values
                    ih.append(('zz',) + tuple(table[-1][1:]))
                bad = hier_views(ih)
        except Exception as e:  # noqa
            bad = f'a view raised {type(e).__name__}: {str(e)[:100]}'
        ctx.count(f'views:{which}')
        yield Case('api:views', dict(desc, i=it), py_fail=bad, tags={'kind': which})


def hier_malformed_cases(ctx):
    '''Malformed hierarchical constructions must be refused (no index is produced); and a zero-length grow-only hierarchy
    (from_names) grown label by label is the table of the accepted labels.'''
    import static_frame as sf
    from static_frame.core.index_level import IndexLevel
    IH = sf.IndexHierarchy
    ih = IH.from_labels([('a', 1), ('a', 2)])
    ih.values                                   # realise the cached blocks
    plans = [
        ('from_labels(reorder + continuation_token)', lambda: IH.from_labels([('a', 1)], reorder_for_hierarchy=True, continuation_token='')),
        ('from_labels(index_constructors of wrong length)', lambda: IH.from_labels([('a', 1)], index_constructors=(sf.Index,))),
        ('from_labels(empty array, wrong depth_reference)', lambda: IH.from_labels(np.empty((0, 3), dtype=object), depth_reference=2)),
        ('IndexHierarchy(Index)', lambda: IH(sf.Index(('a',)))),
        ('IndexHierarchy(IndexLevel of depth 1)', lambda: IH(IndexLevel(sf.Index(('a', 'b'))))),
        ('IndexHierarchy(ih, blocks=...)', lambda: IH(ih, blocks=ih._blocks)),
        ('from_labels_delimited(one component)', lambda: IH.from_labels_delimited(["'a'"])),
        ('from_product(one level)', lambda: IH.from_product(('a', 'b'))),
        ('level_drop(0)', lambda: ih.level_drop(0)),
        ('from_labels(non-unique, index_constructors)', lambda: IH.from_labels([('a', 1), ('a', 1)], index_constructors=(sf.Index, sf.Index))),
    ]
    for name, fn in plans:
        try:
            r = fn()
            bad = f'{name} produced {type(r).__name__} of {len(r)} labels; it must be refused'
        except Exception:  # noqa
            bad = None
        yield Case('api:hier-malformed', {'call': name}, py_fail=bad, tags={'call': name})
    for labels in ([("('a' 1)"), ("['a' 2]")], ["('a' 1 'x')", "('a' 2 'x')"]):
        table = [tuple(eval(c) for c in s.strip("()[]").split(' ')) for s in labels]
        pr = [list(x) for x in table]
        obs, x = rhobs_lit(lambda: IH.from_labels_delimited(labels), pr)
        yield Case('api:hier-more', {'derivation': 'more:from_labels_delimited(brackets)', 'labels': repr(labels), 'observed': obs[:300]},
                   s=f'chk_S_hier {ll(table)} {ll(pr)} {obs}', tags={'derivation': 'more:from_labels_delimited'})
    for _ in range(ctx.n(8, 100)):
        depth = ctx.rng.choice([2, 3])
        pools = [['a', 'b'], [1, 2], ['x', 'y']][:depth]
        g = sf.IndexHierarchyGO.from_names(tuple('xyz'[:depth]))
        first = tuple(ctx.rng.choice(p) for p in pools)
        ops, outs = [], []
        for new in [first] + [tuple(ctx.rng.choice(p) for p in pools) for _ in range(ctx.rng.choice([1, 2, 4]))]:
            try:
                g.append(new)
                outs.append(True)
            except Exception:  # noqa
                outs.append(False)
            ops.append(new)
        pr = [list(x) for x in dict.fromkeys(ops)] + [[pools[0][0]]]
        obs = reading(hobs_lit, g, pr)
        # the first label of an empty table is always acceptable; afterwards S_hgo_run decides
        yield Case('api:ihgo-append', {'initial': '[] (from_names)', 'appended': repr(ops), 'outcomes': outs, 'observed': obs[:300]},
                   s=f'chk_S_hier_go {ll([first])} {ll(ops[1:])} {lit.lst([lit.b(x) for x in outs[1:]])} {ll(pr)} {obs}',
                   py_fail=None if outs[0] else 'the first label appended to a zero-length IndexHierarchyGO was refused', tags={'route': 'IHGO.from_names.append'})


def ihgo_append_cases(ctx):
    '''IndexHierarchyGO.append histories with ARBITRARY appended labels (continuing the tree order, re-entering an
    earlier group, duplicates, wrong depth), the cached table realised (values / reversed / iloc / display) or not at
    random points; afterwards indices are DERIVED from the grown index through the constructor routes before anything
    realises its cache again, and the derived indices and the source are all observed completely against the
    specification S_hgo_run.  The tree surgery of IndexLevelGO.append itself is modelled by C05/C09.'''
    import static_frame as sf
    pools_by = [['a', 'b', 'c', 'd'], [1, 2, 3, 4], ['x', 'y', 'z']]
    for it in range(ctx.n(60, 900)):
        depth = ctx.rng.choice([2, 2, 3])
        pools = pools_by[:depth]
        table = random_tree_labels(ctx.rng, depth, [p[:3] for p in pools])[:6]
        via_frame = ctx.rng.random() < 0.3
        if via_frame:
            f = sf.FrameGO.from_element(0, index=(0,), columns=sf.IndexHierarchyGO.from_labels(table))
            ih = f.columns
        else:
            ih = sf.IndexHierarchyGO.from_labels(table)
        # the pattern that matters most: realise once, grow, realise nothing
        realise_plan = ctx.rng.choice(['once-before', 'random', 'never'])
        if realise_plan == 'once-before':
            REALISE[ctx.rng.choice(['values', 'reversed', 'iloc', 'display'])](ih)
        ops, outs, trace = [], [], []
        known = list(table)
        for _ in range(ctx.rng.choice([1, 2, 3, 5])):
            r = ctx.rng.random()
            last = known[-1]
            if r < 0.5:
                keep = ctx.rng.randrange(0, depth)           # continue the last group at some depth
                new = tuple(last[:keep]) + tuple(ctx.rng.choice(p) for p in pools[keep:])
            elif r < 0.9:
                new = tuple(ctx.rng.choice(p) for p in pools)   # anything: may re-enter an earlier group or be held
            else:
                new = tuple(ctx.rng.choice(p) for p in pools)[:depth - 1] if ctx.rng.random() < 0.5 else tuple(ctx.rng.choice(p) for p in pools) + (1,)
            if realise_plan == 'random':
                how = ctx.rng.choice(sorted(REALISE))
                REALISE[how](ih)
                trace.append(how)
            try:
                if via_frame:
                    f[new] = 1
                else:
                    ih.append(new)
                outs.append(True)
                known.append(new)
            except Exception:  # noqa
                outs.append(False)
            ops.append(new)
        rows = [tuple(ctx.rng.choice(p) for p in pools) for _ in range(2)]
        seen, probes = set(), []
        for x in list(table) + ops + rows + [tuple(table[0][:-1]), tuple(table[0]) + (table[0][-1],)]:
            if repr(x) not in seen:
                seen.add(repr(x))
                probes.append(list(x))
        probes = probes[:12]
        # derive first (nothing has realised the cache of the source since its last growth step), observe afterwards
        routes_ = ctx.rng.sample(sorted(IH_DERIVE), 2 if ctx.tier == 'quick' else 3)
        derived = []
        for name in routes_:
            try:
                derived.append((name, IH_DERIVE[name](ih)))
            except Exception as e:  # noqa
                derived.append((name, e))
        common = f'{ll(table)} {ll(ops)} {lit.lst([lit.b(x) for x in outs])} {ll(probes)}'
        desc = {'initial': repr(table), 'appended': repr(ops), 'outcomes': outs, 'realise': realise_plan + ':' + ','.join(trace), 'via': 'FrameGO.columns' if via_frame else 'IndexHierarchyGO'}
        for name, d in derived:
            ctx.count(f'ihgo:derived:{name}')
            if isinstance(d, Exception):
                yield Case('api:ihgo-derived', dict(desc, derivation=name, error=type(d).__name__), py_fail=f'{name} of a grown IndexHierarchyGO raised {type(d).__name__}: {str(d)[:100]}', tags={'route': name})
                continue
            obs = reading(hobs_lit, d, probes)
            yield Case('api:ihgo-derived', dict(desc, derivation=name, observed=obs[:300]), s=f'chk_S_hier_go {common} {obs}', tags={'route': name})
        obs = reading(hobs_lit, ih, probes)
        ctx.count('ihgo:append-history', f'ihgo:accepted={sum(outs)}', f'ihgo:rejected={len(outs) - sum(outs)}', f'ihgo:realise={realise_plan}')
        yield Case('api:ihgo-append', dict(desc, observed=obs[:300]), s=f'chk_S_hier_go {common} {obs}', tags={'route': 'IHGO.append'})


# ----------------------------------------------------------------------------- oracle / kernel strata
def automap_oracle_cases(ctx):
    '''automap.FrozenAutoMap / AutoMap against the oracle model am_build / am_get (exhaustive small label lists).'''
    from automap import AutoMap, FrozenAutoMap
    alphabet = [0, 1, True, 1.0, 'a', (0, 1), None, 2]
    maxlen = 3 if ctx.tier == 'quick' else 4
    for n in range(0, maxlen + 1):
        for labels in itertools.product(alphabet, repeat=n):
            outs = []
            for cls in (FrozenAutoMap, AutoMap):
                try:
                    m = cls(labels)
                    outs.append('(Ok ' + lit.lst([f'({vlit(k)}, {lit.z(m[k])})' for k in labels]) + ')')
                except ValueError:
                    outs.append('(Err "ValueError")')
            ctx.count('automap:dup' if 'Err' in outs[0] else 'automap:ok')
            yield Case('oracle:automap', {'labels': repr(labels), 'observed': outs[0][:200]},
                       m=f'chk_automap {vl(labels)} {outs[0]} && chk_automap {vl(labels)} {outs[1]}', tags={'oracle': 'automap'},
                       nontrivial=n >= 2)


STRATA = [construct_small_cases, construct_random_cases, dtype_cases, auto_cases, go_small_cases, go_promotion_cases, go_random_cases, static_from_go_cases, bigint_cases,
          multi_key_cases, derive_cases, auto_derive_cases, more_flat_cases, date_range_cases, datetime_cases, hier_small_cases, hier_random_cases, hier_derive_cases, more_hier_cases, views_cases, hier_malformed_cases, ihgo_append_cases,
          automap_oracle_cases]


def cases(ctx):
    for gen in STRATA:
        it = gen(ctx)
        k = 0
        while True:
            try:
                c = next(it)
            except StopIteration:
                break
            except ReaderRaised as e:
                # the generator is dead after an exception; report what happened as a violation of the property
                yield Case('api:reader-raised', {'stratum': gen.__name__, 'after_cases': k, 'error': str(e)},
                           py_fail=f'a reader of an existing index raised: {e}', tags={'stratum': gen.__name__})
                break
            k += 1
            # the identity of a case is its INPUT (stratum + calls + arguments), not what the implementation answered:
            # a replay on a repaired tree then finds the case again and reports that it no longer fails
            c.key = json.dumps([c.kind] + [[a, b] for a, b in sorted(c.desc.items()) if a not in ('observed', 'outcomes')],
                               sort_keys=True, default=str)
            yield c
