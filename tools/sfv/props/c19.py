'''C19 -- Quilt and Batch are faithful views over the Frames they hold.'''
import itertools

import numpy as np

from .. import lit
from .. import zoo
from ..core import Case

ID = 'C19'
MANIFEST = {
    'text': ('Coq theorems (unbounded, closed under the global context). QUILT: C19_quilt_extract_faithful / C19_quilt_extract_block_faithful -- the implementation '
             'model of Quilt._extract (Boolean mask over the axis map, adjacent-duplicate-filtered bus keys, per-member sub-mask through HLoc, per-member mask '
             'selection, relabel_level_add, dimension reduction, concatenation; AxisMap construction failures included) equals Frame selection on the single '
             'concatenated Frame for every Bus layout, both label modes, every opposite-axis key and every key that visits the members one after the other with '
             'ascending positions inside each (int, ascending slice, mask, ascending list, member-wise ascending list), empty selections excluded; '
             'C19_seg_take_faithful (the 1-D heart over arbitrary label/item types); C19_quilt_extract_array_faithful (Quilt._extract_array); '
             'C19_quilt_loc_faithful (loc / __getitem__); C19_quilt_shape_labels (labels, shape, uniqueness of retained labels); C19_quilt_iter_faithful '
             '(iter_array/series/tuple[_items], items along the Quilt axis); C19_quilt_window_faithful (iter_window[_array][_items], all window parameters); '
             'C19_quilt_no_full_build (a selection asks the Bus only for members owning an addressed position). '
             'BATCH: C19_batch_pointwise (a chain of lazily wrapped generators of any depth, with plain and exception-silencing operations, yields and ends '
             'exactly as applying the chain to each label\'s Frame in turn), C19_batch_pool_pointwise (max_workers path: same results, raises iff some label raises), '
             'C19_batch_pointwise_total, C19_batch_export (to_frame concatenates exactly those results); on tables regenerated from the source: C19_batch_forwarding_identity, '
             'C19_batch_reductions_forward_composable, C19_quilt_array_joins_resolved. '
             'Refuted/C19.v: six witnesses, one per known finding. '
             'Correspondence (API level, public calls only): Quilt iloc / loc / __getitem__ on both axes, labels/shape/keys, to_frame/values/head/tail, iterators, '
             'windows (Frame and array), store-backed Buses with max_persist None/1/2/k with store reads logged; Batch chains of depth 1..3 over 45 operations '
             '(selection, operators, reductions, NA handling, function application, apply_except) sequential and thread-pool, to_frame both axes, to_bus; '
             'every Quilt answer is also cross-checked on the implementation against Frame.from_concat[_items](bus frames).<op>.'),
    'note': ('trusted: Coq kernel; the hand-written models SF/Quilt.v and SF/BatchView.v (tied to the code only by the correspondence cases of each run; no translated kernel); '
             'NumPy indexing semantics as modelled by key_positions; label -> position translation modelled by plain lookup (C02/C05 own it); harness. '
             'Lines abstraction: the model is parametric in what a line is (rows for axis 0, columns for axis 1), the harness transposes. '
             'Batch operations are parameters of the theorems; in the correspondence they are instantiated by the graph of the real Frame/Series methods on the inputs '
             'reached in the case (so the Batch plumbing is modelled, the methods are not). Partial: dtype resolution of mixed-dtype members is only cross-checked on the '
             'implementation (Python equality); Batch.to_frame with results that need a union/fill or have zero width is not modelled; process pools (use_threads=False) are not run; '
             'of the store formats zip_pickle, zip_tsv, zip_csv and sqlite are run (text labels, int64 cells), zip_parquet / xlsx / hdf5 cannot be (pyarrow, xlsxwriter, tables are not installed); '
             'Quilt._extract_array is also called directly (kernel stratum) with int / list / full keys no public caller passes, Boolean-array keys excluded (it rejects them); '
             'the Quilt/Batch meta interface (name, rename, get, nbytes, status, repr, display, keys, values, shapes, to_zip_pickle) is checked on the implementation only; '
             'Quilt has no iter_element in this version. The name of a Frame result is not part of S (M models it). '
             'Gen/Gen_c19.v (regenerated every run): the keyword forwarding table of every Batch method and the callees of Quilt._extract_array return statements.'),
    'technique': 'refinement proof M=S over segmented sequences / generator chains + differential correspondence',
}
PROPERTY_FILES = ['Properties/C19.v']
REFUTED_FILES = ['Refuted/C19.v']
MODEL_FILES = ['SF/Quilt.v', 'SF/BatchView.v', 'Gen/Gen_c19.v']
IMPORTS = 'Require Import SF.Prelude SF.PySlice SF.Value SF.Quilt SF.BatchView.'
RULE = ('Quilt: Buses of 1..4 member Frames (0..3 lines each, distinct int64 cells, random block layouts) over a shared opposite axis, both Quilt axes, retain_labels on/off, '
        'member labels str/int, shared across members when retained; keys: every int in [-n-1,n], every slice with bounds in None,-n-1..n+1 and step None,1,2,-1,-2, every Boolean '
        'mask, every ordered list of <= 3 positions, malformed keys (out of range, repeated, wrong mask length); opposite key all/int/list/slice/mask (quick tier: stratified sample). '
        'Label keys: single, ordered lists, inclusive ranges, HLoc[member], absent labels. Windows: size x step x window_sized x label_shift x start_shift x size_increment grid. '
        'Store: zip-pickle Bus with max_persist None/1/2/k. Batch: 5 sets of Frames (ragged, aligned, float with NaN, single, int labels), every operation alone, sampled pairs and triples. '
        'non-trivial = the key addresses >= 2 members or reduces a dimension / the Batch holds >= 2 Frames; distinct = distinct (bus layout, key) or (frames, chain, pool mode).')
ASSUMPTIONS = ['NumPy integer/slice/mask indexing = key_positions (norm_index, PySlice.positions)',
               'cells are distinct int64 values, so a result identifies which cell went where',
               'a Series over an IndexHierarchy (the axis map) rejects repeated positions and owner sequences not in tree form (observed; D14)',
               'Batch operations: any function container -> result | exception; instantiated by tabulating the real methods']
EXHAUSTIVE = {'quick': False, 'thorough': False}


GENERATED_FILES = ['Gen/Gen_c19.v']


# ---------------------------------------------------------------------------- decisions read from the source on every run
def generate(repo):
    """Two dispatch facts the models take for granted, read from the AST of /repo on every run (fail closed):
    * every Batch method that forwards to the member Frames (`return self._apply_attr(attr=..., kw=value, ...)`) hands each of
      its keyword arguments on UNCHANGED (kw=kw) -- the model treats a Batch operation as "that operation on each Frame";
    * Quilt._extract_array joins its parts only with the dtype-resolving concat_resolved (or hands a single part to the
      extractor) -- the model keeps the class of every cell.
    Properties/C19.v proves both about the tables generated here."""
    import ast
    import os

    def cs(text):
        return '"' + text.replace('"', '""') + '"'
    core = os.path.join(repo, 'static_frame', 'core')
    with open(os.path.join(core, 'batch.py')) as f:
        tree = ast.parse(f.read())
    batch = next(n for n in tree.body if isinstance(n, ast.ClassDef) and n.name == 'Batch')
    rows = []
    for fn in batch.body:
        if not isinstance(fn, ast.FunctionDef):
            continue
        for node in ast.walk(fn):
            if (isinstance(node, ast.Call) and isinstance(node.func, ast.Attribute) and node.func.attr == '_apply_attr'
                    and isinstance(node.func.value, ast.Name) and node.func.value.id == 'self'):
                if node.args:
                    raise ValueError(f'Batch.{fn.name}: positional arguments to _apply_attr')
                attr, kws = None, []
                for kw in node.keywords:
                    if kw.arg is None:
                        raise ValueError(f'Batch.{fn.name}: **kwargs forwarded')
                    if kw.arg == 'attr':
                        if not (isinstance(kw.value, ast.Constant) and isinstance(kw.value.value, str)):
                            raise ValueError(f'Batch.{fn.name}: attr is not a string constant')
                        attr = kw.value.value
                    else:
                        kws.append((kw.arg, kw.value.id if isinstance(kw.value, ast.Name) else '<' + type(kw.value).__name__ + '>'))
                if attr is None:
                    raise ValueError(f'Batch.{fn.name}: _apply_attr without attr=')
                rows.append((fn.name, attr, kws))
    if len(rows) < 30 or not any(r[0] == '_ufunc_axis_skipna' for r in rows):
        raise ValueError(f'only {len(rows)} forwarding Batch methods found: batch.py changed shape')
    with open(os.path.join(core, 'quilt.py')) as f:
        qtree = ast.parse(f.read())
    quilt = next(n for n in qtree.body if isinstance(n, ast.ClassDef) and n.name == 'Quilt')
    xa = next(n for n in quilt.body if isinstance(n, ast.FunctionDef) and n.name == '_extract_array')
    joins = []
    for node in ast.walk(xa):
        if isinstance(node, ast.Return) and node.value is not None:
            v = node.value
            if not isinstance(v, ast.Call):
                raise ValueError('Quilt._extract_array returns something that is not a call')
            joins.append(ast.unparse(v.func))
    if len(joins) < 4:
        raise ValueError('Quilt._extract_array: fewer return statements than expected')
    lines = ['(* GENERATED on every run by tools/sfv/props/c19.py:generate from static_frame/core/batch.py and quilt.py -- do not edit *)',
             'Require Import SF.Prelude.', 'Local Open Scope string_scope.', '',
             '(* (Batch method, attribute called on each member, [(keyword handed on, the expression it is given)]) *)',
             'Definition batch_forward : list (string * string * list (string * string)) := [']
    lines.append(';\n'.join('  (%s, %s, [%s])' % (cs(m), cs(a), '; '.join(f'({cs(k)}, {cs(v)})' for k, v in kws)) for m, a, kws in rows))
    lines += ['].', '', '(* the callee of every return statement of Quilt._extract_array *)',
              'Definition quilt_array_returns : list string := [' + '; '.join(cs(j) for j in joins) + '].', '']
    return {'Gen/Gen_c19.v': '\n'.join(lines)}


# ---------------------------------------------------------------------------- building
class QSpec:
    '''A Bus of member Frames seen as labelled lines along the Quilt axis.'''

    def __init__(self, axis, retain, members, opp):
        self.axis = axis            # 0: lines are rows, 1: lines are columns
        self.retain = retain
        self.members = members      # [(bus_label, [line labels], [[cells]], name)]
        self.opp = opp              # opposite-axis labels

    def n(self):
        return sum(len(m[1]) for m in self.members)

    def owners(self):
        return [i for i, m in enumerate(self.members) for _ in m[1]]

    def desc(self):
        return {'axis': self.axis, 'retain_labels': self.retain, 'opposite_labels': self.opp,
                'members': [{'bus_label': b, 'labels': ls, 'lines': lines} for b, ls, lines, _ in self.members]}

    def coq(self):
        ms = []
        for b, ls, lines, name in self.members:
            ms.append(f'({lit.val(b)}, mk_mframe {lit.vlist(ls)} {lit.lst([lit.vlist(l) for l in lines])} {lit.val(name)})')
        return f'(mk_quilt {lit.lst(ms)} {lit.vlist(self.opp)} {lit.b(self.retain)})'

    def frames(self, rng=None):
        import static_frame as sf
        out = []
        for b, ls, lines, name in self.members:
            if self.axis == 0:
                ncols = len(self.opp)
                cols = [_typed([ln[j] for ln in lines]) for j in range(ncols)]
                index, columns = ls, self.opp
            else:
                cols = [_typed(ln) for ln in lines]
                index, columns = self.opp, ls
            layouts = list(zoo.layouts_for([c.dtype for c in cols])) if cols else [()]
            layout = layouts[rng.randrange(len(layouts))] if rng is not None else layouts[0]
            f = zoo.frame_from_columns(cols, layout, index=sf.Index(index), columns=sf.Index(columns), name=name)
            out.append((b, f))
        return out


def _typed(values):
    """1-D array of one member's cells: int64 for ints, NumPy's natural dtype for str / bool / float cells."""
    if all(isinstance(v, int) and not isinstance(v, bool) for v in values):
        return np.array(values, dtype=np.int64)
    return np.array(values)


_CELL = {'int': lambda c: c, 'str': lambda c: f's{c}', 'bool': lambda c: c % 3 == 0, 'float': lambda c: c + 0.5}
# members whose dtypes NumPy cannot combine losslessly: the concatenation must resolve to object and keep every cell's class
MIXED = [((2, 2, 1), ('int', 'str', 'bool')), ((2, 1), ('bool', 'int')), ((1, 2), ('float', 'str')), ((2, 2), ('bool', 'str')), ((1, 1, 2), ('str', 'int', 'str'))]


def mixed_specs(ctx):
    for sizes, kinds in (MIXED[:3] if ctx.tier == 'quick' else MIXED):
        for axis in (0, 1):
            for retain in (False, True):
                yield make_spec(axis, retain, sizes, 2, kinds=kinds)


def make_spec(axis, retain, sizes, n_opp, share_labels=False, int_labels=False, kinds=None, opp_labels=None, zero_based=False):
    members = []
    cell = 10
    k = 0
    for i, size in enumerate(sizes):
        ls = []
        for j in range(size):
            if share_labels:
                ls.append(j + 1 if int_labels else f'r{j}')
            else:
                ls.append((k if zero_based else 100 + k) if int_labels else f'r{k}')
            k += 1
        lines = []
        for j in range(size):
            lines.append([_CELL[kinds[i] if kinds else 'int'](c) for c in range(cell, cell + n_opp)])
            cell += n_opp
        members.append((f'f{i}', ls, lines, f'f{i}'))
    opp = list(opp_labels) if opp_labels is not None else [f'c{j}' for j in range(n_opp)]
    spec = QSpec(axis, retain, members, opp)
    spec.kinds = kinds
    return spec


def canon(r, axis):
    '''Observable result of a selection -> (coq literal, json).'''
    import static_frame as sf
    if isinstance(r, sf.Frame):
        if axis == 0:
            labels, opp, lines = lit.labels(r.index), lit.labels(r.columns), r.values.tolist()
        else:
            labels, opp, lines = lit.labels(r.columns), lit.labels(r.index), r.values.T.tolist()
        if r.shape[0] == 0 or r.shape[1] == 0:
            lines = [[] for _ in labels]
        name = r.name
        return (f'(QFrame {lit.vlist(labels)} {lit.vlist(opp)} {lit.lst([lit.vlist(l) for l in lines])} {lit.val(name)})',
                {'kind': 'Frame', 'labels': labels, 'opposite': opp, 'lines': lines, 'name': name})
    if isinstance(r, sf.Series):
        idx, vals = lit.labels(r.index), lit.array_vals(r.values)
        return (f'(QSeries {lit.vlist(idx)} {lit.vlist(vals)} {lit.val(r.name)})',
                {'kind': 'Series', 'index': idx, 'values': vals, 'name': r.name})
    return f'(QElem {lit.val(r)})', {'kind': 'element', 'value': r}


def observe(fn, axis):
    try:
        r = fn()
    except Exception as e:  # noqa
        cls = lit.err_class(e)
        return f'(Err {lit.s(cls)})', {'error': cls}, None
    text, js = canon(r, axis)
    return f'(Ok {text})', js, r


def _jsonable(x):
    if isinstance(x, dict):
        return {k: _jsonable(v) for k, v in x.items()}
    if isinstance(x, (list, tuple)):
        return [_jsonable(v) for v in x]
    if isinstance(x, np.generic):
        return x.item()
    return x


# ---------------------------------------------------------------------------- keys
def key_coq(k):
    if k is None:
        return 'KAll'
    if isinstance(k, (int, np.integer)) and not isinstance(k, bool):
        return f'(KInt {lit.z(k)})'
    if isinstance(k, slice):
        if k == slice(None):
            return 'KAll'          # NULL_SLICE: the code treats None and slice(None) alike (quilt.py:925-931)
        return f'(KSlice {lit.slice_(k)})'
    if isinstance(k, np.ndarray) and k.dtype == bool:
        return f'(KMask {lit.lst([lit.b(x) for x in k.tolist()])})'
    if isinstance(k, list):
        return f'(KList {lit.lst([lit.z(x) for x in k])})'
    raise ValueError(k)


def key_json(k):
    if isinstance(k, slice):
        return {'slice': [k.start, k.stop, k.step]}
    if isinstance(k, np.ndarray):
        return {'mask': k.tolist()}
    return k


def key_py(k):
    return slice(None) if k is None else k


def key_kind(k):
    if k is None:
        return 'all'
    if isinstance(k, slice):
        return 'slice-' if (k.step is not None and k.step < 0) else 'slice+'
    if isinstance(k, np.ndarray):
        return 'mask'
    if isinstance(k, list):
        return 'list'
    return 'int'


def key_positions(k, n):
    '''Normalised positions in key order, or None when NumPy rejects the key.'''
    try:
        if k is None:
            return list(range(n))
        if isinstance(k, np.ndarray):
            if len(k) != n:
                return None
            return [i for i, c in enumerate(k.tolist()) if c]
        r = np.arange(n)[k]
        return [int(r)] if np.ndim(r) == 0 else [int(x) for x in r]
    except Exception:  # noqa
        return None


def classify(spec, sel):
    '''Known-finding class of a selection key, decided from the INPUT alone.'''
    ps = key_positions(sel, spec.n())
    if any(len(m[1]) == 0 for m in spec.members):
        return 'C19-empty-member', ps
    if ps is None or len(set(ps)) != len(ps):
        return None, ps
    if sel is None:
        return None, ps
    if not ps:
        return 'C19-empty-selection', ps
    own = spec.owners()
    seq = [own[p] for p in ps]
    runs = [b for b, _ in itertools.groupby(seq)]
    if len(set(runs)) != len(runs):
        return 'C19-key-order-revisit', ps
    for a, b in zip(ps, ps[1:]):
        if own[a] == own[b] and a > b:
            return 'C19-key-order-within', ps
    return None, ps


def sample_keys(ctx, n, limit):
    """A sample of sel_keys_all(n) in which every key kind and both empty / non-empty selections are represented."""
    groups = {}
    for k in sel_keys_all(n):
        ps = key_positions(k, n)
        groups.setdefault((key_kind(k), 'bad' if ps is None else ('empty' if not ps else 'some')), []).append(k)
    share = max(1, limit // max(1, sum(1 for g in groups if g[1] == 'some')))
    out = []
    for g in sorted(groups):
        pool = groups[g]
        take = share if g[1] == 'some' else 1
        out += pool if len(pool) <= take else ctx.rng.sample(pool, take)
    return out


def sel_keys_all(n):
    '''Every selection key over an axis of length n (small n).'''
    keys = [None]
    keys += list(range(-n - 1, n + 1))
    vals = [None] + list(range(-n - 1, n + 2))
    for a, b, st in itertools.product(vals, vals, (None, 1, 2, -1, -2)):
        keys.append(slice(a, b, st))
    for bits in itertools.product((False, True), repeat=n):
        keys.append(np.array(bits, dtype=bool))
    for r in range(0, min(n, 3) + 1):
        for perm in itertools.permutations(range(n), r):
            keys.append(list(perm))
    keys.append([0, 0] if n else [0])
    keys.append([n])
    keys.append([-1, 0] if n > 1 else [-1])
    keys.append(np.array([True] * (n + 1), dtype=bool))
    return keys


def opp_keys(m):
    # never an EMPTY opposite selection: rows/columns together with an empty selection on the other axis is the
    # member Frame's business (Frame.iloc[[0, 2], 1:] on a one-column Frame raises ErrorInitFrame: C04), m >= 2 here
    ks = [None, 0, -1, [m - 1, 0] if m > 1 else [0], slice(1, None), np.array([i % 2 == 0 for i in range(m)], dtype=bool)]
    return ks


SIZES_QUICK = [(2, 2, 1), (3,), (1, 0, 2), (2, 1), (1, 1, 1, 1), (0, 2), (3, 2)]
SIZES_MORE = [(1,), (2,), (1, 1), (1, 2), (2, 2), (3, 1), (2, 0, 1), (1, 1, 1), (2, 1, 2), (3, 3), (2, 2, 2)]


def make_quilt(spec, rng):
    import static_frame as sf
    frames = spec.frames(rng)
    # deepcopy_from_bus only changes who owns the arrays (get_extractor, quilt.py:50-64): every answer must stay the same
    q = sf.Quilt.from_items(frames, axis=spec.axis, retain_labels=spec.retain, deepcopy_from_bus=bool(rng.randrange(2)))
    return q, frames


def concat_frame(spec, frames):
    import static_frame as sf
    if spec.retain:
        return sf.Frame.from_concat_items(frames, axis=spec.axis)
    return sf.Frame.from_concat([f for _, f in frames], axis=spec.axis)


def iloc_cases(ctx):
    specs = []
    sizes_list = SIZES_QUICK if ctx.tier == 'quick' else SIZES_QUICK + SIZES_MORE
    for sizes in sizes_list:
        for axis in (0, 1):
            for retain in (False, True):
                share = retain and (sum(sizes) % 2 == 0)
                specs.append(make_spec(axis, retain, sizes, n_opp=2 + (len(sizes) % 2), share_labels=share,
                                       int_labels=(len(sizes) == 2)))
    specs += list(mixed_specs(ctx))
    per_spec = ctx.n(48, 500)
    for spec in specs:
        n = spec.n()
        q, frames = make_quilt(spec, ctx.rng)
        try:
            cf = concat_frame(spec, frames)
        except Exception:  # noqa
            cf = None
        keys = sel_keys_all(n)
        if any(len(m[1]) == 0 for m in spec.members):
            keys = ctx.rng.sample(keys, 8)       # such a Quilt refuses everything (known finding): a few keys are enough
        if len(keys) > per_spec:
            # keep every key kind represented: stratified sample
            by_kind = {}
            for k in keys:
                by_kind.setdefault(key_kind(k), []).append(k)
            share_n = max(4, per_spec // len(by_kind))
            keys = []
            for kind in sorted(by_kind):
                pool = by_kind[kind]
                keys += pool if len(pool) <= share_n else ctx.rng.sample(pool, share_n)
        oks = opp_keys(len(spec.opp))
        qlit = spec.coq()
        for i, sel in enumerate(keys):
            opp = None if i % 3 else oks[ctx.rng.randrange(len(oks))]
            if spec.axis == 0:
                pykey = (key_py(sel), key_py(opp))
            else:
                pykey = (key_py(opp), key_py(sel))
            out, js, r = observe(lambda: q.iloc[pykey], spec.axis)
            finding, ps = classify(spec, sel)
            spans = len({spec.owners()[p] for p in ps}) if ps else 0
            ctx.count(f'sel:{key_kind(sel)}', f'opp:{key_kind(opp)}', f'axis:{spec.axis}', f'retain:{spec.retain}',
                      f'members:{len(spec.members)}', f'spans:{spans}', 'out:' + (js.get('kind') or js.get('error')))
            py_fail = None
            if cf is not None and finding is None:
                out2, js2, _ = observe(lambda: cf.iloc[pykey], spec.axis)
                a, b_ = dict(js), dict(js2)
                a.pop('name', None) if a.get('kind') == 'Frame' else None
                b_.pop('name', None) if b_.get('kind') == 'Frame' else None
                if _jsonable(a) != _jsonable(b_):
                    py_fail = f'quilt.iloc[key] = {_jsonable(a)} but Frame.from_concat(bus frames).iloc[key] = {_jsonable(b_)}'
            tags = {'op': 'iloc', 'axis': spec.axis, 'retain': spec.retain, 'sel': key_kind(sel), 'opp': key_kind(opp)}
            if finding:
                tags['finding'] = finding
            desc = {'call': 'sf.Quilt.from_items(frames, axis=axis, retain_labels=retain).iloc[row_key, column_key]',
                    'quilt': spec.desc(), 'sel_key(along quilt axis)': key_json(sel), 'opposite_key': key_json(opp),
                    'observed': _jsonable(js)}
            # the class a known finding is matched by (decided from the input) must be the complement of the
            # guard of the refinement theorem, as Coq computes it
            guard = ''
            if finding or ps is None or len(set(ps)) == len(ps):
                guard = f' && Bool.eqb (dom_extract_block {qlit} {key_coq(sel)}) {lit.b(finding is None)}'
            yield Case('api:quilt.iloc', desc,
                       m=f'qm_eqb (M_extract_full {qlit} {key_coq(sel)} {key_coq(opp)}) {out}{guard}',
                       s=f'qs_eqb (S_extract {qlit} {key_coq(sel)} {key_coq(opp)}) {out}',
                       py_fail=py_fail, tags=tags,
                       nontrivial=spans >= 2 or isinstance(sel, int) or isinstance(opp, int),
                       key=f'{spec.axis}{spec.retain}{[len(m[1]) for m in spec.members]}{key_json(sel)}{key_json(opp)}')



# ---------------------------------------------------------------------------- shared helpers for the other strata
def classify_ps(spec, ps, is_all=False):
    if any(len(m[1]) == 0 for m in spec.members):
        return 'C19-empty-member'
    if ps is None or len(set(ps)) != len(ps) or is_all:
        return None
    if not ps:
        return 'C19-empty-selection'
    own = spec.owners()
    seq = [own[p] for p in ps]
    runs = [b for b, _ in itertools.groupby(seq)]
    if len(set(runs)) != len(runs):
        return 'C19-key-order-revisit'
    for a, b in zip(ps, ps[1:]):
        if own[a] == own[b] and a > b:
            return 'C19-key-order-within'
    return None


def out_labels(spec):
    out = []
    for b, ls, _, _ in spec.members:
        out += [(b, l) if spec.retain else l for l in ls]
    return out


def small_specs(ctx, quick, more, with_empty=False):
    sizes_list = quick if ctx.tier == 'quick' else quick + more
    for sizes in sizes_list:
        if not with_empty and 0 in sizes:
            continue
        for axis in (0, 1):
            for retain in (False, True):
                share = retain and (sum(sizes) % 2 == 0)
                yield make_spec(axis, retain, sizes, n_opp=2 + (len(sizes) % 2), share_labels=share, int_labels=(len(sizes) == 2))


def spec_key(spec):
    return f'{spec.axis}{spec.retain}{[len(m[1]) for m in spec.members]}{spec.members[0][1][:1]}{getattr(spec, "kinds", None)}'


# ---------------------------------------------------------------------------- labels / shape / export
def labels_cases(ctx):
    import static_frame as sf
    specs = list(small_specs(ctx, SIZES_QUICK, SIZES_MORE, with_empty=True)) + list(mixed_specs(ctx))
    # members whose own labels collide: legal only with retained labels
    for axis in (0, 1):
        for retain in (False, True):
            specs.append(make_spec(axis, retain, (2, 2), 2, share_labels=True))
            specs.append(make_spec(axis, retain, (1, 2, 1), 2, share_labels=True, int_labels=True))
    for spec in specs:
        q, frames = make_quilt(spec, ctx.rng)
        qlit = spec.coq()
        finding = classify_ps(spec, [0], is_all=True)
        tags = {'op': 'labels', 'axis': spec.axis, 'retain': spec.retain}
        if finding:
            tags['finding'] = finding

        def get_labels():
            return lit.labels(q.index if spec.axis == 0 else q.columns)
        try:
            labs = get_labels()
            out = f'(Ok {lit.vlist(labs)})'
            js = {'labels': labs}
            shape = q.shape
            want = (len(labs), len(spec.opp)) if spec.axis == 0 else (len(spec.opp), len(labs))
            py_fail = None
            if tuple(shape) != want or q.size != want[0] * want[1] or len(q.index) != want[0]:
                py_fail = f'quilt.shape = {shape}, labels give {want}'
            opp_l = lit.labels(q.columns if spec.axis == 0 else q.index)
            if opp_l != spec.opp:
                py_fail = f'opposite labels {opp_l} != {spec.opp}'
            cols = lit.labels(q.columns)
            if [k for k in q.keys()] != list(q.columns) or list(iter(q)) != list(q.columns) or (cols and cols[0] not in q):
                py_fail = 'keys()/__iter__/__contains__ disagree with columns'
        except Exception as e:  # noqa
            out = f'(Err {lit.s(lit.err_class(e))})'
            js = {'error': lit.err_class(e)}
            py_fail = None
        ctx.count('labels:' + ('ok' if 'labels' in js else js['error']))
        yield Case('api:quilt.labels', {'call': 'Quilt(...).index/.columns/.shape/.size/keys()', 'quilt': spec.desc(), 'observed': _jsonable(js)},
                   m=f'res_eqb vlist_eqb (M_labels {qlit}) {out}', s=f'res_eqb vlist_eqb (S_labels {qlit}) {out}',
                   py_fail=py_fail, tags=tags, nontrivial=len(spec.members) > 1, key='labels' + spec_key(spec))
        # export: to_frame / values / head / tail (only for Buses that make a Quilt at all)
        if 'error' in js and not finding:
            continue
        for name, fn, sel in (('to_frame', lambda: q.to_frame(), None),
                              ('head', lambda: q.head(2), slice(None, 2)),
                              ('tail', lambda: q.tail(2), slice(-2, None))):
            if spec.axis == 1 and name != 'to_frame':
                # head/tail always slice rows: for a column Quilt that is the opposite axis
                out, js, r = observe(fn, spec.axis)
                selk, oppk = 'KAll', key_coq(sel)
            else:
                out, js, r = observe(fn, spec.axis)
                selk, oppk = key_coq(sel), 'KAll'
            t = dict(tags, op=name)
            pf = None
            if name == 'to_frame' and r is not None:
                try:
                    cls = lambda a: [[(type(x).__name__, x) for x in row] for row in a.tolist()]
                    if cls(q.values) != cls(r.values):
                        pf = 'quilt.values != quilt.to_frame().values (values or element classes)'
                except Exception as e:  # noqa
                    pf = f'quilt.values raised {type(e).__name__}'
            ctx.count('export:' + name)
            yield Case('api:quilt.export', {'call': f'Quilt(...).{name}()', 'quilt': spec.desc(), 'observed': _jsonable(js)},
                       m=f'qm_eqb (M_extract_full {qlit} {selk} {oppk}) {out}', s=f'qs_eqb (S_extract {qlit} {selk} {oppk}) {out}',
                       py_fail=pf, tags=t, nontrivial=len(spec.members) > 1, key=name + spec_key(spec))


# ---------------------------------------------------------------------------- selection by label
def lkey_coq(k):
    kind = k[0]
    if kind == 'all':
        return 'LAll'
    if kind == 'one':
        return f'(LOne {lit.val(k[1])})'
    if kind == 'many':
        return f'(LMany {lit.vlist(k[1])})'
    if kind == 'range':
        return f'(LRange {lit.val(k[1])} {lit.val(k[2])})'
    if kind == 'outer':
        return f'(LOuter {lit.val(k[1])})'
    raise ValueError(k)


def lkey_py(k, hier):
    import static_frame as sf
    kind = k[0]
    if kind == 'all':
        return slice(None)
    if kind == 'one':
        return sf.HLoc[k[1][0], k[1][1]] if hier and isinstance(k[1], tuple) else k[1]
    if kind == 'many':
        return list(k[1])
    if kind == 'range':
        return slice(k[1], k[2])
    if kind == 'outer':
        return sf.HLoc[k[1]]


def lkey_positions(k, labels):
    kind = k[0]
    try:
        if kind == 'all':
            return list(range(len(labels))), True
        if kind == 'one':
            return [labels.index(k[1])], False
        if kind == 'many':
            return [labels.index(v) for v in k[1]], False
        if kind == 'range':
            return list(range(labels.index(k[1]), labels.index(k[2]) + 1)), False
        if kind == 'outer':
            ps = [i for i, l in enumerate(labels) if isinstance(l, tuple) and l[0] == k[1]]
            return (ps or None), False
    except ValueError:
        return None, False


def loc_cases(ctx):
    for spec in small_specs(ctx, [(2, 2, 1), (3,), (2, 1), (1, 1, 1, 1)], [(1, 2), (3, 2), (2, 2, 2), (1, 3)]):
        q, frames = make_quilt(spec, ctx.rng)
        try:
            cf = concat_frame(spec, frames)
        except Exception:  # noqa
            cf = None
        labels = out_labels(spec)
        n = len(labels)
        qlit = spec.coq()
        lkeys = [('all',)]
        lkeys += [('one', l) for l in labels]
        for r in (1, 2, 3):
            perms = list(itertools.permutations(labels, r))
            lkeys += [('many', list(pm)) for pm in (perms if len(perms) <= 12 else ctx.rng.sample(perms, 12))]
        lkeys += [('range', a, b) for a in labels for b in labels]
        if spec.retain:
            lkeys += [('outer', m[0]) for m in spec.members] + [('outer', 'nope')]
        absent = ('zz', 'zz') if spec.retain else 'zz'
        lkeys += [('one', absent), ('many', [labels[0], absent])]
        limit = ctx.n(40, 400)
        if len(lkeys) > limit:
            lkeys = ctx.rng.sample(lkeys, limit)
        okeys = [('all',), ('one', spec.opp[0]), ('many', [spec.opp[-1], spec.opp[0]]), ('range', spec.opp[0], spec.opp[-1]), ('one', 'zz')]
        for i, lk in enumerate(lkeys):
            ok = ('all',) if i % 3 else okeys[ctx.rng.randrange(len(okeys))]
            via_getitem = (i % 5 == 0)
            psel = lkey_py(lk, spec.retain)
            popp = lkey_py(ok, False)
            if via_getitem:
                # __getitem__ selects columns only
                if spec.axis == 0:
                    lk, psel = ('all',), slice(None)
                    call, fn, fn2 = 'quilt[column_key]', (lambda: q[popp]), (lambda: cf[popp])
                else:
                    ok, popp = ('all',), slice(None)
                    call, fn, fn2 = 'quilt[column_key]', (lambda: q[psel]), (lambda: cf[psel])
                if (spec.axis == 0 and ok[0] == 'all') or (spec.axis == 1 and lk[0] == 'all'):
                    continue   # quilt[:] is a row slice in the Frame API, not a column key
            else:
                pykey = (psel, popp) if spec.axis == 0 else (popp, psel)
                call, fn, fn2 = 'quilt.loc[row_key, column_key]', (lambda: q.loc[pykey]), (lambda: cf.loc[pykey])
            out, js, r = observe(fn, spec.axis)
            ps, is_all = lkey_positions(lk, labels)
            finding = classify_ps(spec, ps, is_all)
            py_fail = None
            if cf is not None and finding is None:
                out2, js2, _ = observe(fn2, spec.axis)
                a, b_ = dict(js), dict(js2)
                if a.get('kind') == 'Frame':
                    a.pop('name', None)
                if b_.get('kind') == 'Frame':
                    b_.pop('name', None)
                if _jsonable(a) != _jsonable(b_):
                    py_fail = f'quilt gives {_jsonable(a)} but the concatenated Frame gives {_jsonable(b_)}'
            tags = {'op': 'getitem' if via_getitem else 'loc', 'axis': spec.axis, 'retain': spec.retain, 'sel': lk[0], 'opp': ok[0]}
            if finding:
                tags['finding'] = finding
            ctx.count('loc-sel:' + lk[0], 'loc-opp:' + ok[0], 'loc-via:' + tags['op'], 'out:' + (js.get('kind') or js.get('error')))
            spans = len({spec.owners()[p_] for p_ in ps}) if ps else 0
            yield Case('api:quilt.loc', {'call': call, 'quilt': spec.desc(), 'sel_key(along quilt axis)': _jsonable(list(lk)), 'opposite_key': _jsonable(list(ok)),
                                         'observed': _jsonable(js)},
                       m=f'qm_eqb (M_extract_loc {qlit} {lkey_coq(lk)} {lkey_coq(ok)}) {out}',
                       s=f'qs_eqb (S_extract_loc {qlit} {lkey_coq(lk)} {lkey_coq(ok)}) {out}',
                       py_fail=py_fail, tags=tags, nontrivial=spans >= 2 or lk[0] == 'one' or ok[0] == 'one',
                       key=f'loc{spec_key(spec)}{lk}{ok}{via_getitem}')


# ---------------------------------------------------------------------------- two-part label selection with FALSY labels
FALSY_OPP = [[0, 1, 2], [0.0, 1.5], [False, True], ['', 'a', 'b'], [2, 0, 1]]


def falsy_loc_cases(ctx):
    """quilt.loc[sel, opp] where the opposite key is a valid label that is falsy in Python (0, 0.0, False, '') or an empty
    list: it must not be taken for `no key given`.  Every two-part form, both axes, both label modes; the kind of result
    (element / Series / Frame) and its labels are part of the observation; cross-checked against the concatenated Frame."""
    for oi, opp_labels in enumerate(FALSY_OPP):
        for axis in (0, 1):
            for retain in (False, True):
                sizes = [(2, 1), (1, 2, 1), (3,)][(oi + axis) % 3]
                zero = (oi % 2 == 0) and not retain
                spec = make_spec(axis, retain, sizes, len(opp_labels), opp_labels=opp_labels, int_labels=zero, zero_based=zero)
                q, frames = make_quilt(spec, ctx.rng)
                cf = concat_frame(spec, frames)
                labels = out_labels(spec)
                qlit = spec.coq()
                sels = [('one', labels[0]), ('one', labels[-1]), ('range', labels[0], labels[-1]), ('range', labels[1 % len(labels)], labels[-1]),
                        ('many', [labels[0], labels[-1]]), ('many', [labels[-1]]), ('all',)]
                opps = [('one', l) for l in opp_labels] + [('many', []), ('many', [opp_labels[0]]), ('many', [opp_labels[-1], opp_labels[0]]),
                                                          ('range', opp_labels[0], opp_labels[-1]), ('range', opp_labels[0], opp_labels[0]), ('all',)]
                for lk in sels:
                    for ok in opps:
                        psel, popp = lkey_py(lk, spec.retain), lkey_py(ok, False)
                        pykey = (psel, popp) if axis == 0 else (popp, psel)
                        out, js, r = observe(lambda: q.loc[pykey], axis)
                        out2, js2, _ = observe(lambda: cf.loc[pykey], axis)
                        ps, is_all = lkey_positions(lk, labels)
                        finding = classify_ps(spec, ps, is_all)
                        spans = len({spec.owners()[p_] for p_ in ps}) if ps else 0
                        empty_opp = ok == ('many', [])
                        m_ok = True
                        if finding is None and empty_opp and lk[0] != 'one' and spans >= 2 and axis == 0:
                            finding, m_ok = 'C19-empty-opposite-selection', False      # Frame.from_concat of column-less parts (C11): not modelled
                        a, b_ = dict(js), dict(js2)
                        if a.get('kind') == 'Frame':
                            a.pop('name', None)
                        if b_.get('kind') == 'Frame':
                            b_.pop('name', None)
                        py_fail = None
                        if finding is None and _jsonable(a) != _jsonable(b_):
                            py_fail = f'quilt.loc gives {_jsonable(a)}, the concatenated Frame gives {_jsonable(b_)}'
                        tags = {'op': 'loc-falsy', 'axis': axis, 'retain': retain, 'sel': lk[0], 'opp': ok[0], 'opp_label_kind': type(opp_labels[0]).__name__}
                        if finding:
                            tags['finding'] = finding
                        ctx.count('falsy:opp=' + type(opp_labels[0]).__name__, 'falsy:form=' + lk[0] + 'x' + ok[0], 'falsy-out:' + (js.get('kind') or js.get('error')))
                        yield Case('api:quilt.loc-falsy', {'call': 'quilt.loc[row_key, column_key]', 'quilt': spec.desc(), 'sel_key(along quilt axis)': _jsonable(list(lk)),
                                                           'opposite_key': _jsonable(list(ok)), 'observed': _jsonable(js)},
                                   m=f'qm_eqb (M_extract_loc {qlit} {lkey_coq(lk)} {lkey_coq(ok)}) {out}' if m_ok else None,
                                   s=f'qs_eqb (S_extract_loc {qlit} {lkey_coq(lk)} {lkey_coq(ok)}) {out}',
                                   py_fail=py_fail, tags=tags, nontrivial=True, key=f'falsy{oi}{axis}{retain}{lk}{ok}')


# ---------------------------------------------------------------------------- iteration
def iter_cases(ctx):
    import static_frame as sf
    pair = 'list_eqb (pair_eqb val_eqb vlist_eqb)'
    for spec in itertools.chain(small_specs(ctx, [(2, 2, 1), (3,), (2, 1)], [(1, 1, 1, 1), (1, 2), (3, 2)]), mixed_specs(ctx)):
        q, frames = make_quilt(spec, ctx.rng)
        qlit = spec.coq()
        along = 1 if spec.axis == 0 else 0       # iter_*(axis=1) walks rows, axis=0 walks columns
        opp_labels = spec.opp
        import collections
        ctors = {'tuple': tuple, 'namedtuple': collections.namedtuple('Line', [f'x{j}' for j in range(len(opp_labels))])}
        for name in ('iter_array_items', 'iter_series_items', 'iter_tuple_items', 'items', 'iter_array', 'iter_series', 'iter_tuple',
                     'iter_tuple_items@tuple', 'iter_tuple@namedtuple'):
            name, _, ctor = name.partition('@')
            for ax in (along, 1 - along):
                cross = ax != along
                if cross and 'tuple' in name and not ctor:
                    continue      # the namedtuple fields would be the Quilt-axis labels (ints, tuples): rejected before any iteration
                if name == 'items':
                    if ax != 0:
                        continue
                    call = 'quilt.items()'
                    gen = lambda: list(q.items())
                else:
                    call = f'quilt.{name}(axis={ax}' + (f', constructor={ctor})' if ctor else ')')
                    gen = (lambda nm=name, a=ax, c=ctor: list(getattr(q, nm)(axis=a, constructor=ctors[c]) if c else getattr(q, nm)(axis=a)))
                py_fail = None
                try:
                    got = gen()
                    if not name.endswith('items') and name != 'items':
                        labs = lit.labels(q.index if ax == 1 else q.columns)
                        got = list(zip(labs, got))
                    pairs = []
                    for lab, v in got:
                        lab = tuple(lab) if isinstance(lab, tuple) else lab
                        if isinstance(v, sf.Series):
                            if lit.labels(v.index) != opp_labels or (tuple(v.name) if isinstance(v.name, tuple) else v.name) != lab:
                                py_fail = f'{call}: Series index/name {lit.labels(v.index)}/{v.name} != {opp_labels}/{lab}'
                            vals = lit.array_vals(v.values)
                        elif isinstance(v, np.ndarray):
                            vals = lit.array_vals(v)
                        else:
                            want_f = list(ctors['namedtuple']._fields) if ctor == 'namedtuple' else ([] if ctor else list(opp_labels))
                            if list(getattr(v, '_fields', ())) != want_f:
                                py_fail = f'{call}: tuple fields {getattr(v, "_fields", None)} != {opp_labels}'
                            vals = list(v)
                        pairs.append((lab, vals))
                    out = '(Ok ' + lit.lst([f'({lit.val(l)}, {lit.vlist(v)})' for l, v in pairs]) + ')'
                    js = {'items': pairs}
                except Exception as e:  # noqa
                    out = f'(Err {lit.s(lit.err_class(e))})'
                    js = {'error': lit.err_class(e)}
                tags = {'op': 'iter', 'axis': spec.axis, 'retain': spec.retain, 'cross_axis': cross, 'iter': name}
                if cross:
                    tags['finding'] = 'C19-iter-cross-axis'
                ctx.count('iter:' + name, 'iter-cross:' + str(cross))
                m = f'res_eqb ({pair}) (M_iter_cross {qlit}) {out}' if cross else f'res_eqb ({pair}) (M_iter_items {qlit}) {out}'
                s_ = f'res_eqb ({pair}) (S_iter_cross {qlit}) {out}' if cross else f'res_eqb ({pair}) (S_iter_items {qlit}) {out}'
                yield Case('api:quilt.iter', {'call': call, 'quilt': spec.desc(), 'observed': _jsonable(js)}, m=m, s=s_, py_fail=py_fail, tags=tags,
                           nontrivial=len(spec.members) > 1, key=f'iter{spec_key(spec)}{name}{ctor}{ax}')


# ---------------------------------------------------------------------------- windows
def window_keys_py(n, size, step, label_shift, start_shift, size_increment):
    cmax = n if start_shift >= 0 else n + abs(start_shift)
    lmax = cmax - 1
    idx_left, count = start_shift, 0
    out = []
    while True:
        idx_right = idx_left + size - 1
        l = idx_left if idx_left > 0 else 0
        r = idx_right if idx_right > -1 else -1
        out.append(slice(l, r + 1))
        idx_left += step
        size += size_increment
        count += 1
        if count > cmax or idx_left > lmax or size < 0:
            break
    return out


def window_cases(ctx):
    grid = list(itertools.product((1, 2, 3), (1, 2, 0), (True, False), (0, -1, 1), (0, -1, 1, 2), (0, 1)))
    grid += [(0, 1, True, 0, 0, 0), (2, -1, True, 0, 0, 0), (2, 1, True, 0, 9, 0), (2, 1, False, 0, 0, -1)]
    for spec in itertools.chain(small_specs(ctx, [(2, 2, 1), (3,), (2, 1)], [(1, 1, 1, 1), (1, 2), (3, 2)]), mixed_specs(ctx)):
        q, frames = make_quilt(spec, ctx.rng)
        qlit = spec.coq()
        n = spec.n()
        params = grid if len(grid) <= ctx.n(18, 100) else ctx.rng.sample(grid, ctx.n(18, 100))
        for j, (size, step, sized, lshift, sshift, sinc) in enumerate(params):
            for along_sel in ((True, False) if j % 4 == 0 else (True,)):
                as_array = (j % 3 == 1) or (bool(getattr(spec, 'kinds', None)) and j % 2 == 0)   # mixed dtypes: Quilt._extract_array must resolve, not re-type
                ax = spec.axis if along_sel else 1 - spec.axis
                kw = dict(size=size, step=step, axis=ax, window_sized=sized, label_shift=lshift, start_shift=sshift, size_increment=sinc)
                name = 'iter_window_array_items' if as_array else 'iter_window_items'
                nlab = n if along_sel else len(spec.opp)
                finding = classify_ps(spec, [0], is_all=True)
                if finding is None and size > 0 and step >= 0 and along_sel:
                    for k in window_keys_py(nlab, size, step, lshift, sshift, sinc):
                        if len(range(nlab)[k]) == 0:
                            finding = 'C19-empty-selection'
                            break
                if finding is None and not along_sel and size > 0 and step >= 0:
                    if any(len(range(nlab)[k]) == 0 for k in window_keys_py(nlab, size, step, lshift, sshift, sinc)):
                        continue       # an empty opposite-axis window is the member Frame's business (C03/C04), not the Quilt's
                py_fail_w = None
                try:
                    got = list(getattr(q, name)(**kw))
                    plain = list(getattr(q, name[:-len('_items')])(**kw))       # iter_window / iter_window_array
                    same = len(plain) == len(got) and all((np.array_equal(a_, b2[1]) if as_array else a_.equals(b2[1], compare_name=True))
                                                          for a_, b2 in zip(plain, got))
                    if not same:
                        py_fail_w = f'quilt.{name[:-6]}(**kw) does not yield the windows of quilt.{name}(**kw)'
                    items = []
                    for lab, w in got:
                        lab = tuple(lab) if isinstance(lab, tuple) else lab
                        if as_array:
                            lines = w.tolist() if spec.axis == 0 else w.T.tolist()
                            items.append((lab, f'(AArr2 {lit.lst([lit.vlist(l) for l in lines])})', lines))
                        else:
                            text, js1 = canon(w.rename(None), spec.axis)
                            items.append((lab, text, js1))
                    out = '(Ok ' + lit.lst([f'({lit.val(l)}, {t})' for l, t, _ in items]) + ')'
                    js = {'windows': [(l, j_) for l, _, j_ in items]}
                except Exception as e:  # noqa
                    out = f'(Err {lit.s(lit.err_class(e))})'
                    js = {'error': lit.err_class(e)}
                p = f'(mk_wparams {lit.z(size)} {lit.z(step)} {lit.b(sized)} {lit.z(lshift)} {lit.z(sshift)} {lit.z(sinc)})'
                tags = {'op': 'window', 'axis': spec.axis, 'retain': spec.retain, 'along_quilt_axis': along_sel, 'as_array': as_array}
                if finding:
                    tags['finding'] = finding
                ctx.count(f'window:size{size}', f'window:step{step}', f'window:array{as_array}', 'window-out:' + ('ok' if 'windows' in js else js['error']))
                if as_array:
                    eq = 'res_eqb (list_eqb (pair_eqb val_eqb ares_eqb))'
                    m = f'{eq} (M_windows_array {qlit} {lit.b(along_sel)} {p}) {out}'
                    s_ = f'{eq} (S_windows_array {qlit} {lit.b(along_sel)} {p}) {out}'
                else:
                    eq = 'res_eqb (list_eqb (pair_eqb val_eqb qres_eqb))'
                    m = f'{eq} (M_windows {qlit} {lit.b(along_sel)} {p}) {out}'
                    s_ = f'{eq} (S_windows {qlit} {lit.b(along_sel)} {p}) {out}'
                yield Case('api:quilt.window', {'call': f'list(quilt.{name}(**kw))', 'kw': kw, 'quilt': spec.desc(), 'observed': _jsonable(js)},
                           m=m, s=s_, py_fail=py_fail_w, tags=tags, nontrivial=len(spec.members) > 1 and size > 1,
                           key=f'win{spec_key(spec)}{sorted(kw.items())}{as_array}')


# ---------------------------------------------------------------------------- the Bus under the Quilt: store, max_persist, laziness
def store_cases(ctx):
    import os
    import tempfile
    import static_frame as sf
    with tempfile.TemporaryDirectory(prefix='c19_') as d:
        k = 0
        for spec in small_specs(ctx, [(2, 2, 1), (1, 1, 1, 1), (3, 2)], [(2, 1), (1, 2, 1), (2, 2, 2)]):
            frames = spec.frames(ctx.rng)
            fp = os.path.join(d, f'bus{k}.zip')
            k += 1
            sf.Bus.from_items(frames).to_zip_pickle(fp)
            qmem = sf.Quilt.from_items(frames, axis=spec.axis, retain_labels=spec.retain)
            n = spec.n()
            qlit = spec.coq()
            # other store formats carry the same Frames when labels are text and cells int64 (the codecs themselves are C16/C17's)
            plain = all(isinstance(l, str) for m_ in spec.members for l in m_[1])
            fmts = [('zip_pickle', mp_) for mp_ in (None, 1, 2, len(frames))]
            if plain:
                fmts += [(('zip_tsv', 'zip_csv', 'sqlite')[(k + j_) % 3], (1, None)[j_]) for j_ in (0, 1)]
            for fmt, mp in fmts:
                if fmt == 'zip_pickle':
                    q = sf.Quilt.from_zip_pickle(fp, axis=spec.axis, retain_labels=spec.retain, max_persist=mp)
                else:
                    fp2 = os.path.join(d, f'bus{k}_{fmt}' + ('.sqlite' if fmt == 'sqlite' else '.zip'))
                    getattr(sf.Bus.from_items(frames), 'to_' + fmt)(fp2)
                    q = getattr(sf.Quilt, 'from_' + fmt)(fp2, config=sf.StoreConfig(index_depth=1), axis=spec.axis, retain_labels=spec.retain, max_persist=mp)
                store = q._bus._store
                log = []
                orig_many = store.read_many

                def read_many(labels, _orig=orig_many, _log=log, **kw):
                    labels = list(labels)
                    _log.extend(labels)
                    return _orig(labels, **kw)
                store.read_many = read_many
                shape = q.shape            # builds the axis map: walks the whole Bus once
                last = frames[-1][0]
                keys = [kk for kk in sample_keys(ctx, n, ctx.n(6, 40)) if kk is not None] + [None]
                for sel in keys:
                    ps = key_positions(sel, n)
                    finding = classify_ps(spec, ps, sel is None)
                    loaded_before = [b for b, ld in zip(q._bus.index.values.tolist(), q._bus._loaded.tolist()) if ld]
                    cur = loaded_before[-1] if (mp == 1 and loaded_before) else None
                    del log[:]
                    pykey = (key_py(sel), slice(None)) if spec.axis == 0 else (slice(None), key_py(sel))
                    out, js, r = observe(lambda: q.iloc[pykey], spec.axis)
                    reads = [str(x) for x in log]
                    out_mem, js_mem, _ = observe(lambda: qmem.iloc[pykey], spec.axis)
                    py_fail = None
                    if _jsonable(js) != _jsonable(js_mem):
                        py_fail = f'store-backed quilt (max_persist={mp}) gives {_jsonable(js)}, in-memory quilt gives {_jsonable(js_mem)}'
                    addressed = {spec.members[spec.owners()[p_]][0] for p_ in (ps or [])}
                    if sel is not None and not set(reads) <= addressed:
                        py_fail = f'selection addressing members {sorted(addressed)} read {reads} from the store'
                    if mp is not None and int(q._bus._loaded.sum()) > mp:
                        py_fail = f'{int(q._bus._loaded.sum())} member Frames held with max_persist={mp}'
                    tags = {'op': 'store-iloc', 'axis': spec.axis, 'retain': spec.retain, 'max_persist': mp, 'sel': key_kind(sel), 'format': fmt}
                    if finding:
                        tags['finding'] = finding
                    ctx.count(f'store:max_persist={mp}', f'store:reads={len(reads)}', f'store:format={fmt}')
                    m = None
                    if fmt != 'zip_pickle':
                        m = None      # only the zip-pickle store is instrumented
                    elif mp == 1:
                        curl = f'(Some {lit.val(cur)})' if cur is not None else 'None'
                        m = (f'vlist_eqb (reads_persist1 {curl} (M_touched_key {qlit} {key_coq(sel)} KAll)) {lit.vlist(reads)}')
                    elif mp is None:
                        m = f'vlist_eqb [] {lit.vlist(reads)}'
                    yield Case('api:quilt.store', {'call': f'Quilt.from_{fmt}(fp, axis, retain_labels, max_persist).iloc[key]; store reads logged',
                                                   'quilt': spec.desc(), 'max_persist': mp, 'sel_key': key_json(sel), 'loaded_before': loaded_before,
                                                   'store_reads': reads, 'observed': _jsonable(js)},
                               m=m, s=f'qs_eqb (S_extract {qlit} {key_coq(sel)} KAll) {out}', py_fail=py_fail, tags=tags,
                               nontrivial=len(addressed) < len(spec.members), key=f'store{spec_key(spec)}{fmt}{mp}{key_json(sel)}')


# ---------------------------------------------------------------------------- Quilt.from_frame: a Frame cut into chunks is that Frame
def from_frame_cases(ctx):
    import static_frame as sf
    for n, n_opp in ((5, 2),) if ctx.tier == 'quick' else ((5, 2), (4, 3), (6, 2), (3, 2)):
        for axis in (0, 1):
            for retain in (False, True):
                for chunk in range(1, n + 2):
                    sizes = [min(chunk, n - a) for a in range(0, n, chunk)]
                    spec = make_spec(axis, retain, sizes, n_opp)
                    # bus label of a chunk = its first label (the default label_extractor), also the chunk's name
                    members, k = [], 0
                    for _, ls, lines, _ in spec.members:
                        members.append((ls[0], ls, lines, ls[0]))
                    spec.members = members
                    all_labels = [l for m in members for l in m[1]]
                    all_lines = [ln for m in members for ln in m[2]]
                    whole = QSpec(axis, False, [('whole', all_labels, all_lines, 'whole')], spec.opp)
                    frame = whole.frames(ctx.rng)[0][1].rename('whole')
                    q = sf.Quilt.from_frame(frame, chunksize=chunk, retain_labels=retain, axis=axis)
                    qlit = spec.coq()
                    keys = sample_keys(ctx, n, ctx.n(12, 80))
                    oks = opp_keys(n_opp)
                    for i, sel in enumerate(keys):
                        opp = None if i % 2 else oks[ctx.rng.randrange(len(oks))]
                        pykey = (key_py(sel), key_py(opp)) if axis == 0 else (key_py(opp), key_py(sel))
                        out, js, r = observe(lambda: q.iloc[pykey], axis)
                        finding, ps = classify(spec, sel)
                        py_fail = None
                        if finding is None and not retain:
                            out2, js2, _ = observe(lambda: frame.iloc[pykey], axis)
                            a, b_ = dict(js), dict(js2)
                            if a.get('kind') == 'Frame':
                                a.pop('name', None)
                            if b_.get('kind') == 'Frame':
                                b_.pop('name', None)
                            if _jsonable(a) != _jsonable(b_):
                                py_fail = f'Quilt.from_frame(frame, chunksize={chunk}).iloc[key] = {_jsonable(a)} but frame.iloc[key] = {_jsonable(b_)}'
                        tags = {'op': 'from_frame.iloc', 'axis': axis, 'retain': retain, 'sel': key_kind(sel), 'opp': key_kind(opp)}
                        if finding:
                            tags['finding'] = finding
                        ctx.count(f'from_frame:chunks={len(sizes)}')
                        spans = len({spec.owners()[p_] for p_ in ps}) if ps else 0
                        yield Case('api:quilt.from_frame', {'call': f'sf.Quilt.from_frame(frame, chunksize={chunk}, retain_labels={retain}, axis={axis}).iloc[row_key, column_key]',
                                                            'quilt(chunks)': spec.desc(), 'sel_key(along quilt axis)': key_json(sel), 'opposite_key': key_json(opp),
                                                            'observed': _jsonable(js)},
                                   m=f'qm_eqb (M_extract_full {qlit} {key_coq(sel)} {key_coq(opp)}) {out}',
                                   s=f'qs_eqb (S_extract {qlit} {key_coq(sel)} {key_coq(opp)}) {out}',
                                   py_fail=py_fail, tags=tags, nontrivial=spans >= 2,
                                   key=f'ff{axis}{retain}{n}{chunk}{key_json(sel)}{key_json(opp)}')


# ---------------------------------------------------------------------------- kernel: Quilt._extract_array called directly
def extract_array_cases(ctx):
    """The public window iterators only ever hand slices to _extract_array; its int / list / full-Bus routes
    (quilt.py:850-859, 880, 889-897, 905-907) are reached by calling it as axis_window_items does, with every key kind."""
    for spec in itertools.chain(small_specs(ctx, [(2, 2, 1), (3,), (2, 1)], [(1, 1, 1, 1), (3, 2)]), mixed_specs(ctx)):
        q, frames = make_quilt(spec, ctx.rng)
        q.shape
        qlit = spec.coq()
        n = spec.n()
        oks = [None, 0, -1, [len(spec.opp) - 1, 0], slice(1, None)]
        # no Boolean-array keys: unlike _extract, _extract_array compares its keys with NULL_SLICE unguarded (an array there is a
        # ValueError) and no public caller hands it one
        for i, sel in enumerate([k_ for k_ in sample_keys(ctx, n, ctx.n(10, 60)) if not isinstance(k_, np.ndarray)] + [None, None]):
            opp = None if i % 2 else oks[ctx.rng.randrange(len(oks))]
            rk, ck = (sel, opp) if spec.axis == 0 else (opp, sel)
            try:
                r = q._extract_array(rk, ck)
                if isinstance(r, np.ndarray) and r.ndim == 2:
                    lines = r.tolist() if spec.axis == 0 else r.T.tolist()
                    out, js = f'(Ok (AArr2 {lit.lst([lit.vlist(l) for l in lines])}))', {'array2d(lines)': lines}
                elif isinstance(r, np.ndarray) and r.ndim == 1:
                    out, js = f'(Ok (AArr1 {lit.vlist(lit.array_vals(r))}))', {'array1d': lit.array_vals(r)}
                else:
                    out, js = f'(Ok (AElem {lit.val(r)}))', {'element': r}
            except Exception as e:  # noqa
                cls = 'RuntimeError' if isinstance(e, StopIteration) else lit.err_class(e)   # what it becomes inside the window generator
                out, js = f'(Err {lit.s(cls)})', {'error': cls}
            finding, ps = classify(spec, sel)
            tags = {'op': '_extract_array', 'axis': spec.axis, 'retain': spec.retain, 'sel': key_kind(sel), 'opp': key_kind(opp)}
            if finding:
                tags['finding'] = finding
            ctx.count('extract_array:sel=' + key_kind(sel), 'extract_array:opp=' + key_kind(opp))
            yield Case('kernel:quilt._extract_array', {'call': 'quilt._extract_array(row_key, column_key)', 'quilt': spec.desc(), 'sel_key(along quilt axis)': key_json(sel),
                                                      'opposite_key': key_json(opp), 'observed': _jsonable(js)},
                       m=f'res_eqb ares_eqb (M_extract_array {qlit} {key_coq(sel)} {key_coq(opp)}) {out}',
                       s=f'res_eqb ares_eqb (S_extract_array {qlit} {key_coq(sel)} {key_coq(opp)}) {out}',
                       tags=tags, nontrivial=bool(ps) and len({spec.owners()[p_] for p_ in ps}) >= 2,
                       key=f'xa{spec_key(spec)}{key_json(sel)}{key_json(opp)}')


# ---------------------------------------------------------------------------- the rest of the Quilt interface
def meta_cases(ctx):
    import os
    import tempfile
    import static_frame as sf
    with tempfile.TemporaryDirectory(prefix='c19m_') as d:
        for k, spec in enumerate(small_specs(ctx, [(2, 2, 1), (3,), (2, 1)], [(1, 1, 1, 1), (3, 2)])):
            frames = spec.frames(ctx.rng)
            q = sf.Quilt.from_items(frames, axis=spec.axis, retain_labels=spec.retain, name='qn')
            cf = concat_frame(spec, frames)
            why = []
            try:
                if q.name != 'qn':
                    why.append(f'name {q.name!r}')
                q2 = q.rename('other')
                if q2.name != 'other' or q.name != 'qn' or not q2.to_frame().equals(cf) or q2.shape != q.shape:
                    why.append('rename changed more than the name')
                q.shape
                q3 = q.rename('late')       # after the axis map exists: it is handed on
                if not q3.iloc[0].equals(q.iloc[0]) or lit.labels(q3.index) != lit.labels(q.index):
                    why.append('rename after first use changed selections')
                for col in lit.labels(cf.columns)[:2]:
                    key = sf.HLoc[col[0], col[1]] if isinstance(col, tuple) else col
                    a, b_ = q.get(key), cf[key]
                    if a is None or not a.equals(b_, compare_name=True):
                        why.append(f'get({col!r}) != concatenated Frame column')
                if q.get('no-such-column') is not None or q.get('no-such-column', 7) != 7:
                    why.append('get(absent) does not give the default')
                if q.nbytes != sum(f.nbytes for _, f in frames) or q.size != cf.size or q.ndim != 2:
                    why.append(f'nbytes/size/ndim {q.nbytes}/{q.size}/{q.ndim}')
                if not q.status.equals(q._bus.status) or list(q.status.index) != [b for b, _ in frames]:
                    why.append('status is not the Bus status')
                if 'Quilt' not in repr(q) or 'qn' not in repr(q):
                    why.append(f'repr {q!r}')
                if str(q.display()) != str(q.to_frame().display()):
                    why.append('display() is not the display of the consolidated Frame')
                fp = os.path.join(d, f'q{k}.zip')
                q.to_zip_pickle(fp)          # StoreClientMixin over Quilt._items_store: the member Frames under their Bus labels
                back = sf.Bus.from_zip_pickle(fp)
                if [b for b, _ in back.items()] != [b for b, _ in frames] or not all(g.equals(f) for (_, g), (_, f) in zip(back.items(), frames)):
                    why.append('to_zip_pickle did not store the member Frames')
            except Exception as e:  # noqa
                why.append(f'raised {type(e).__name__}: {e}')
            ctx.count('meta')
            yield Case('api:quilt.meta', {'call': 'Quilt name/rename/get/nbytes/size/status/repr/display/to_zip_pickle vs Bus and concatenated Frame', 'quilt': spec.desc()},
                       py_fail='; '.join(why) or None, tags={'op': 'meta', 'axis': spec.axis, 'retain': spec.retain}, nontrivial=len(frames) > 1, key='meta' + spec_key(spec))


# ---------------------------------------------------------------------------- function application over the iterators
def iter_apply_cases(ctx):
    """IterNodeDelegate.apply / apply_iter / apply_iter_items / apply_pool and window_func / window_valid, with the Quilt as the
    container: the same calls on the concatenated Frame are the reference (functions depend on label AND line)."""
    import static_frame as sf

    def norm(r):
        if isinstance(r, sf.Series):
            return ('Series', lit.labels(r.index), lit.array_vals(r.values), r.name)
        if isinstance(r, sf.Frame):
            return ('Frame', lit.labels(r.index), lit.labels(r.columns), r.values.tolist())
        return [((tuple(k) if isinstance(k, tuple) else k), v) if isinstance(x, tuple) and len(x) == 2 else x for x in r for k, v in [x if isinstance(x, tuple) and len(x) == 2 else (None, None)]]
    for spec in itertools.chain(small_specs(ctx, [(2, 2, 1), (3,), (2, 1)], [(1, 1, 1, 1), (3, 2)]), list(mixed_specs(ctx))[:4]):
        mixed = bool(getattr(spec, 'kinds', None))
        q, frames = make_quilt(spec, ctx.rng)
        cf = concat_frame(spec, frames)
        a = 1 if spec.axis == 0 else 0
        tot = (lambda v: '|'.join(str(x) for x in v)) if mixed else (lambda v: int(np.sum(v)) * 3 + int(v[0]))
        routes = [
            ('iter_series(axis).apply(f)', lambda x: x.iter_series(axis=a).apply(lambda s_: tot(s_.values))),
            ('iter_array(axis).apply(f, name=)', lambda x: x.iter_array(axis=a).apply(lambda v: tot(v), name='nm')),
            ('iter_series_items(axis).apply(f(label, line))', lambda x: x.iter_series_items(axis=a).apply(lambda k, s_: f'{k}:{tot(s_.values)}')),
            ('iter_array_items(axis).apply(f(label, line))', lambda x: x.iter_array_items(axis=a).apply(lambda k, v: f'{k}:{tot(v)}')),
            ('iter_tuple(axis).apply(f)', lambda x: x.iter_tuple(axis=a).apply(lambda t: tot(tuple(t)))),
            ('iter_series(axis).apply_iter(f)', lambda x: list(x.iter_series(axis=a).apply_iter(lambda s_: tot(s_.values)))),
            ('iter_array(axis).apply_iter_items(f)', lambda x: list(x.iter_array(axis=a).apply_iter_items(lambda v: tot(v)))),
            ('iter_array(axis).apply_pool(f, threads)', lambda x: x.iter_array(axis=a).apply_pool(tot, use_threads=True, max_workers=2)),
            ('iter_window(size=2).apply(f)', lambda x: x.iter_window(size=2, axis=spec.axis).apply(lambda w: tot(w.values.ravel()))),
            ('iter_window_array(size=2, step=2).apply(f)', lambda x: x.iter_window_array(size=2, step=2, axis=spec.axis).apply(lambda w: tot(w.ravel()))),
            ('iter_window_items(size=2, window_func, window_valid)',
             lambda x: list(x.iter_window_items(size=2, axis=spec.axis, window_func=lambda w: tot(w.values.ravel()), window_valid=lambda w: w.shape[spec.axis] == 2 and w.values.ravel()[0] != 13))),
            ('iter_window_array_items(size=1, window_func)', lambda x: list(x.iter_window_array_items(size=1, axis=spec.axis, window_func=lambda w: tot(w.ravel())))),
        ]
        # element-wise mappings over hashable lines (tuples): some, all, and with a fill
        lines_t = [tuple(ln) for m_ in spec.members for ln in m_[2]]
        some = {t: f'hit{i_}' for i_, t in enumerate(lines_t) if i_ % 2 == 0}
        every = {t: i_ * 7 for i_, t in enumerate(lines_t)}
        routes += [
            ('iter_tuple(axis, constructor=tuple).map_any(mapping)', lambda x: x.iter_tuple(axis=a, constructor=tuple).map_any(some)),
            ('iter_tuple(axis, constructor=tuple).map_fill(mapping, fill_value)', lambda x: x.iter_tuple(axis=a, constructor=tuple).map_fill(some, fill_value='none')),
            ('iter_tuple(axis, constructor=tuple).map_all(mapping)', lambda x: x.iter_tuple(axis=a, constructor=tuple).map_all(every)),
            ('iter_tuple(axis, constructor=tuple).map_all_iter_items(mapping)', lambda x: list(x.iter_tuple(axis=a, constructor=tuple).map_all_iter_items(every))),
            ('iter_tuple(axis, constructor=tuple).map_any_iter(mapping)', lambda x: list(x.iter_tuple(axis=a, constructor=tuple).map_any_iter(some))),
        ]
        for name, fn in routes:
            def run(x):
                try:
                    r = fn(x)
                    if isinstance(r, list):
                        return [(tuple(k) if isinstance(k, tuple) else k, v) if isinstance(kv, tuple) else kv for kv in r for k, v in [kv if isinstance(kv, tuple) else (None, kv)]]
                    return norm(r)
                except Exception as e:  # noqa
                    return ('ERR', lit.err_class(e))
            got, want = run(q), run(cf)
            ctx.count('iter-apply:' + name.split('(')[0])
            yield Case('api:quilt.iter-apply', {'call': 'quilt.' + name + ' vs the same on Frame.from_concat[_items](bus frames)', 'quilt': spec.desc(), 'observed': str(got)[:400]},
                       py_fail=None if _jsonable(got) == _jsonable(want) else f'quilt gives {str(got)[:300]}, the concatenated Frame gives {str(want)[:300]}',
                       tags={'op': 'iter-apply', 'axis': spec.axis, 'retain': spec.retain, 'route': name}, nontrivial=len(frames) > 1,
                       key=f'ia{spec_key(spec)}{name}')


# ---------------------------------------------------------------------------- malformed Buses, mixed dtypes (decided on the implementation)
def malformed_cases(ctx):
    import static_frame as sf
    for axis in (0, 1):
        for retain in (False, True):
            spec = make_spec(axis, retain, (2, 1), 2)
            frames = spec.frames(ctx.rng)
            b, f = frames[1]
            bad = f.relabel(columns=('c0', 'zz')) if axis == 0 else f.relabel(index=('c0', 'zz'))
            swapped = f[['c1', 'c0']] if axis == 0 else f.loc[['c1', 'c0']]
            for what, g in (('opposite labels differ', bad), ('opposite labels reordered', swapped)):
                q = sf.Quilt.from_items((frames[0], (b, g)), axis=axis, retain_labels=retain)
                try:
                    q.shape
                    got = 'ok'
                except Exception as e:  # noqa
                    got = type(e).__name__
                ctx.count('malformed:' + got)
                yield Case('api:quilt.malformed', {'call': 'Quilt over members whose opposite-axis labels are not aligned', 'what': what, 'axis': axis, 'observed': got},
                           py_fail=None if got == 'ErrorInitQuilt' else f'misaligned Bus accepted or wrong error: {got}',
                           tags={'op': 'malformed', 'axis': axis}, nontrivial=True, key=f'malformed{axis}{retain}{what}')
    # mixed column dtypes: the Quilt answers from member Frames, the concatenated Frame from resolved columns;
    # compared as Python values (1 == 1.0), labels exactly
    cols = {'i': np.array([1, 2, 3], dtype=np.int64), 'f': np.array([0.5, 1.5, 2.5]), 's': np.array(['a', 'b', 'c']), 'b': np.array([True, False, True])}
    f0 = sf.Frame.from_items(cols.items(), index=('x', 'y', 'z'), name='f0')
    f1 = sf.Frame.from_items(((k, v[::-1]) for k, v in cols.items()), index=('p', 'q', 'r'), name='f1')
    for retain in (False, True):
        q = sf.Quilt.from_frames((f0, f1), retain_labels=retain)
        cf = sf.Frame.from_concat_items((('f0', f0), ('f1', f1))) if retain else sf.Frame.from_concat((f0, f1))
        for key in (slice(1, 5), 2, [0, 4], (slice(None), 1), (slice(2, 4), [3, 0]), (4, 2), np.array([True, False, False, True, True, False])):
            def norm(fn):
                try:
                    r = fn()
                except Exception as e:  # noqa
                    return ('ERR', type(e).__name__)
                if isinstance(r, sf.Frame):
                    return ('F', lit.labels(r.index), lit.labels(r.columns), r.values.tolist())
                if isinstance(r, sf.Series):
                    return ('S', lit.labels(r.index), r.values.tolist(), r.name)
                return ('E', r)
            a, b_ = norm(lambda: q.iloc[key]), norm(lambda: cf.iloc[key])
            ctx.count('mixed-dtype')
            yield Case('api:quilt.mixed-dtype', {'call': 'quilt.iloc[key] vs Frame.from_concat(frames).iloc[key], columns int/float/str/bool', 'key': str(key), 'retain': retain,
                                                'observed': str(a)},
                       py_fail=None if a == b_ else f'quilt {a} != concatenated Frame {b_}', tags={'op': 'mixed-dtype'}, nontrivial=True,
                       key=f'mixed{retain}{key}')


# ---------------------------------------------------------------------------- Batch
def cont_lit(c):
    import static_frame as sf
    if isinstance(c, sf.Frame):
        rows = c.values.tolist() if c.shape[0] and c.shape[1] else [[] for _ in range(c.shape[0])]
        return (f'(CFrame {lit.vlist(lit.labels(c.index))} {lit.vlist(lit.labels(c.columns))} {lit.lst([lit.vlist(r) for r in rows])} {lit.val(c.name)})',
                {'kind': 'Frame', 'index': lit.labels(c.index), 'columns': lit.labels(c.columns), 'rows': rows, 'name': c.name})
    if isinstance(c, sf.Series):
        vals = lit.array_vals(c.values)
        return (f'(CSeries {lit.vlist(lit.labels(c.index))} {lit.vlist(vals)} {lit.val(c.name)})',
                {'kind': 'Series', 'index': lit.labels(c.index), 'values': vals, 'name': c.name})
    raise ValueError(f'not a container: {type(c).__name__}')


def raw_lit(r):
    import static_frame as sf
    if isinstance(r, (sf.Frame, sf.Series)):
        return f'(RCont {cont_lit(r)[0]})'
    if isinstance(r, np.ndarray):
        if r.ndim == 1:
            return f'(RArr1 {lit.vlist(lit.array_vals(r))})'
        if r.ndim == 2:
            return f'(RArr2 {r.shape[1]} {lit.lst([lit.vlist(x) for x in r.tolist()])})'
        r = r.item()
    return f'(RElem {lit.val(r)})'


def _normalize(r):
    from static_frame.core.batch import normalize_container
    return normalize_container(r)


# (description, operation on the Batch, the same operation on one container, names of silenced exceptions or None)
def batch_ops():
    ops = []

    def add(desc, on_batch, direct, catches=None, items=False, impl=None, grid=False):
        # direct: the public operation on one container (the property's right-hand side);
        # impl:   the exact attribute call Batch._apply_attr makes (Frame keyword arguments included), when it differs
        wrap = (lambda fn: fn) if items else (lambda fn: (lambda l, c, d=fn: d(c)))
        ops.append({'desc': desc, 'batch': on_batch, 'direct': wrap(direct), 'impl': wrap(impl or direct), 'catches': catches,
                    'frame_kwargs': impl is not None, 'grid': grid})
    # selection
    add('iloc[0]', lambda b: b.iloc[0], lambda c: c.iloc[0])
    add('iloc[-1:]', lambda b: b.iloc[-1:], lambda c: c.iloc[-1:])
    add('iloc[[1,0]]', lambda b: b.iloc[[1, 0]], lambda c: c.iloc[[1, 0]])
    add('iloc[:,1]', lambda b: b.iloc[:, 1], lambda c: c.iloc[:, 1])
    add('iloc[0,1]', lambda b: b.iloc[0, 1], lambda c: c.iloc[0, 1])
    add("['c0']", lambda b: b['c0'], lambda c: c['c0'])
    add("loc['r1']", lambda b: b.loc['r1'], lambda c: c.loc['r1'])
    add("loc[['r1','r0']]", lambda b: b.loc[['r1', 'r0']], lambda c: c.loc[['r1', 'r0']])
    add('head(1)', lambda b: b.head(1), lambda c: c.head(1))
    add('tail(2)', lambda b: b.tail(2), lambda c: c.tail(2))
    add('drop.iloc[0]', lambda b: b.drop.iloc[0], lambda c: c.drop.iloc[0])
    # operators
    add('* 2', lambda b: b * 2, lambda c: c * 2)
    add('+ 1', lambda b: b + 1, lambda c: c + 1)
    add('unary -', lambda b: -b, lambda c: -c)
    add('abs', lambda b: abs(b), lambda c: abs(c))
    add('== 12', lambda b: b == 12, lambda c: c == 12)
    add('> 11', lambda b: b > 11, lambda c: c > 11)
    # reductions
    add('sum()', lambda b: b.sum(), lambda c: c.sum())
    add('sum(axis=1)', lambda b: b.sum(axis=1), lambda c: c.sum(axis=1))
    add('max()', lambda b: b.max(), lambda c: c.max())
    add('min(axis=1)', lambda b: b.min(axis=1), lambda c: c.min(axis=1))
    add('prod()', lambda b: b.prod(), lambda c: c.prod())
    add('iloc[1:]', lambda b: b.iloc[1:], lambda c: c.iloc[1:], grid=True)
    # the full reduction grid (run on multi-block members only, see batch_cases): every reduction, both axes, both skipna
    for red in ('sum', 'prod', 'mean', 'median', 'min', 'max', 'std', 'var', 'all', 'any'):
        for ax in (0, 1):
            for sk in (True, False):
                add(f'{red}(axis={ax}, skipna={sk})', (lambda b, r=red, a=ax, k=sk: getattr(b, r)(axis=a, skipna=k)),
                    (lambda c, r=red, a=ax, k=sk: getattr(c, r)(axis=a, skipna=k)), grid=True)
    # NA handling
    add('count()', lambda b: b.count(), lambda c: c.count(), impl=lambda c: c.count(skipna=True, axis=0))
    add('count(axis=1)', lambda b: b.count(axis=1), lambda c: c.count(axis=1), impl=lambda c: c.count(skipna=True, axis=1))
    add('sum(skipna=False)', lambda b: b.sum(skipna=False), lambda c: c.sum(skipna=False))
    add('max(skipna=True)', lambda b: b.max(skipna=True), lambda c: c.max(skipna=True))
    add('apply(fillna(0))', lambda b: b.apply(lambda f: f.fillna(0)), lambda c: c.fillna(0))
    add('apply(dropna())', lambda b: b.apply(lambda f: f.dropna()), lambda c: c.dropna())
    add('apply(isna())', lambda b: b.apply(lambda f: f.isna()), lambda c: c.isna())
    # function application
    add('T', lambda b: b.T, lambda c: c.T)
    add('transpose()', lambda b: b.transpose(), lambda c: c.transpose())
    add('apply(values)', lambda b: b.apply(lambda f: f.values), lambda c: c.values)
    add('apply(values[0])', lambda b: b.apply(lambda f: f.values[0]), lambda c: c.values[0])
    add('apply(size)', lambda b: b.apply(lambda f: int(f.size)), lambda c: int(c.size))
    add('apply_items(rename(label))', lambda b: b.apply_items(lambda l, f: f.rename(l + '!')), lambda l, c: c.rename(l + '!'), items=True)
    add('apply_items(name=(label, shape))', lambda b: b.apply_items(lambda l, f: f.rename((str(l), f.shape))), lambda l, c: c.rename((str(l), c.shape)), items=True)
    add('apply_items(label:size)', lambda b: b.apply_items(lambda l, f: f'{l}:{f.size}'), lambda l, c: f'{l}:{c.size}', items=True)
    add('apply_items_except(label:size if r1, KeyError)', lambda b: b.apply_items_except(lambda l, f: f'{l}:{f.loc["r1"].size}', KeyError),
        lambda l, c: f'{l}:{c.loc["r1"].size}', catches=['KeyError'], items=True)
    add("apply_except(loc['r1'], KeyError)", lambda b: b.apply_except(lambda f: f.loc['r1'], KeyError), lambda c: c.loc['r1'], catches=['KeyError'])
    add('apply_except(iloc[2], IndexError)', lambda b: b.apply_except(lambda f: f.iloc[2], IndexError), lambda c: c.iloc[2], catches=['IndexError'])
    add("apply_items_except(loc['r0'], KeyError)", lambda b: b.apply_items_except(lambda l, f: f.loc['r0'].rename(l), KeyError),
        lambda l, c: c.loc['r0'].rename(l), catches=['KeyError'], items=True)
    add("apply_except(loc['r1'], IndexError)", lambda b: b.apply_except(lambda f: f.loc['r1'], IndexError), lambda c: c.loc['r1'], catches=['IndexError'])
    # other whole-container methods
    add('sort_index(ascending=False)', lambda b: b.sort_index(ascending=False), lambda c: c.sort_index(ascending=False))
    add('shift(1, fill_value=0)', lambda b: b.shift(1, fill_value=0), lambda c: c.shift(1, fill_value=0), impl=lambda c: c.shift(index=1, columns=0, fill_value=0))
    add('roll(1)', lambda b: b.roll(1), lambda c: c.roll(1), impl=lambda c: c.roll(index=1, columns=0, include_index=False, include_columns=False))
    add('isin((10, 13))', lambda b: b.isin((10, 13)), lambda c: c.isin((10, 13)))
    add('clip(lower=11, upper=14)', lambda b: b.clip(lower=11, upper=14), lambda c: c.clip(lower=11, upper=14), impl=lambda c: c.clip(lower=11, upper=14, axis=None))
    # the remaining Batch methods (each forwards Frame keyword arguments through _apply_attr)
    import static_frame as sf
    bkey = sf.Frame.from_records([[True, False], [False, True]], index=('r0', 'r1'), columns=('c0', 'c1'))
    add('bloc[bool Frame]', lambda b: b.bloc[bkey], lambda c: c.bloc[bkey])
    add("drop.loc['r1']", lambda b: b.drop.loc['r1'], lambda c: c.drop.loc['r1'])
    add("drop['c0']", lambda b: b.drop['c0'], lambda c: c.drop['c0'], impl=lambda c: c._drop_getitem(key='c0'))    # a Series has drop[...] but no _drop_getitem
    add('sort_columns(ascending=False)', lambda b: b.sort_columns(ascending=False), lambda c: c.sort_columns(ascending=False))
    add("sort_values('c1', ascending=False)", lambda b: b.sort_values('c1', ascending=False), lambda c: c.sort_values('c1', ascending=False),
        impl=lambda c: c.sort_values(label='c1', ascending=False, axis=1, kind='mergesort'))
    add('duplicated()', lambda b: b.duplicated(), lambda c: c.duplicated(), impl=lambda c: c.duplicated(axis=0, exclude_first=False, exclude_last=False))
    add('duplicated(axis=1, exclude_first=True)', lambda b: b.duplicated(axis=1, exclude_first=True), lambda c: c.duplicated(axis=1, exclude_first=True),
        impl=lambda c: c.duplicated(axis=1, exclude_first=True, exclude_last=False))
    add('drop_duplicated()', lambda b: b.drop_duplicated(), lambda c: c.drop_duplicated(), impl=lambda c: c.drop_duplicated(axis=0, exclude_first=False, exclude_last=False))
    add('round(., 0)', lambda b: round(b, 0), lambda c: round(c, 0))
    add('sample(index=1, seed=3)', lambda b: b.sample(index=1, seed=3), lambda c: c.sample(index=1, seed=3), impl=lambda c: c.sample(index=1, columns=None, seed=3))
    for nm in ('loc_min', 'iloc_min', 'loc_max', 'iloc_max'):
        add(f'{nm}()', (lambda b, n_=nm: getattr(b, n_)()), (lambda c, n_=nm: getattr(c, n_)()), impl=(lambda c, n_=nm: getattr(c, n_)(skipna=True, axis=0)))
    add('loc_max(axis=1)', lambda b: b.loc_max(axis=1), lambda c: c.loc_max(axis=1), impl=lambda c: c.loc_max(skipna=True, axis=1))
    add('iloc_min(skipna=False, axis=1)', lambda b: b.iloc_min(skipna=False, axis=1), lambda c: c.iloc_min(skipna=False, axis=1))
    add('cov()', lambda b: b.cov(), lambda c: c.cov(), impl=lambda c: c.cov(axis=1, ddof=1))
    add('unique()', lambda b: b.unique(), lambda c: c.unique(), impl=lambda c: c.unique(axis=None))
    add('unique(axis=0)', lambda b: b.unique(axis=0), lambda c: c.unique(axis=0))
    add('cumsum()', lambda b: b.cumsum(), lambda c: c.cumsum())
    add('cumprod(axis=1, skipna=False)', lambda b: b.cumprod(axis=1, skipna=False), lambda c: c.cumprod(axis=1, skipna=False))
    return ops


def batch_frame_sets():
    import static_frame as sf

    def fr(name, index, rows, columns=('c0', 'c1')):
        return sf.Frame.from_records(rows, index=index, columns=columns, name=name)
    nan = float('nan')
    sets = {
        'ragged-int': [fr('f0', ('r0', 'r1'), [[10, 11], [12, 13]]), fr('f1', ('r1', 'r2', 'r3'), [[14, 15], [16, 17], [18, 19]]), fr('f2', ('r0',), [[20, 21]])],
        'aligned-int': [fr('a', ('r0', 'r1'), [[10, 11], [12, 13]]), fr('b', ('r0', 'r1'), [[14, 15], [16, 17]]), fr('c', ('r0', 'r1'), [[18, 19], [12, 10]]),
                        fr('d', ('r0', 'r1'), [[1, 2], [3, 4]])],
        'float-nan': [fr('g0', ('r0', 'r1'), [[1.5, nan], [nan, 4.0]]), fr('g1', ('r1', 'r0', 'r2'), [[0.5, 2.0], [nan, nan], [8.0, -1.0]])],
        'single': [fr('only', ('r0', 'r1', 'r2'), [[10, 11], [12, 13], [14, 15]])],
        'int-labels': [fr(1, ('r0', 'r1'), [[10, 11], [12, 13]]), fr(2, ('r0', 'r1'), [[14, 15], [16, 17]])],
    }
    # members whose TypeBlocks hold several blocks of UNEQUAL widths, 2-D blocks included: a reduction must not depend on it
    def blk(name, data, widths, dtype):
        cols = [np.array(c, dtype=dtype) for c in data]
        layout = tuple((w, True if w > 1 else flag) for w, flag in widths)
        return zoo.frame_from_columns(cols, layout, index=sf.Index([f'r{i}' for i in range(len(data[0]))]),
                                      columns=sf.Index([f'c{j}' for j in range(len(data))]), name=name)
    d4 = [[1.0, 2.0, 8.0], [0.5, 4.0, 1.0], [3.0, 1.5, 2.0], [6.0, 0.25, 4.0]]
    d4n = [[1.0, nan, 8.0], [0.5, 4.0, nan], [nan, 1.5, 2.0], [6.0, 0.25, 4.0]]
    d6 = [[1.0, 2.0], [3.0, 5.0], [8.0, 13.0], [21.0, 34.0], [55.0, 89.0], [144.0, 233.0]]
    d6n = [[1.0, nan], [3.0, 5.0], [nan, 13.0], [21.0, nan], [55.0, 89.0], [nan, nan]]
    i6 = [[1, 2], [3, 5], [8, 13], [21, 34], [55, 89], [144, 233]]
    b4 = [[True, False, True], [True, True, False], [False, False, True], [True, True, True]]
    sets['blocks-float'] = [blk('w13', d4, ((1, False), (3, True)), float), blk('w231', d6, ((2, True), (3, True), (1, False)), float),
                            blk('w31', d4, ((3, True), (1, True)), float)]
    sets['blocks-nan'] = [blk('n13', d4n, ((1, False), (3, True)), float), blk('n231', d6n, ((2, True), (3, True), (1, True)), float),
                          blk('n22', d4n, ((2, True), (2, True)), float)]
    sets['blocks-int'] = [blk('i231', i6, ((2, True), (3, True), (1, False)), np.int64), blk('i15', i6, ((1, True), (5, True)), np.int64),
                          blk('b13', b4, ((1, False), (3, True)), bool)]
    out = {k: [(f.name, f) for f in v] for k, v in sets.items()}
    # the same data one array per column: what every reduction must agree with
    out['_flat'] = {f.name: blk(f.name, [f.iloc[:, j].values.tolist() for j in range(f.shape[1])], tuple((1, False) for _ in range(f.shape[1])), f.iloc[:, 0].values.dtype)
                    for k in ('blocks-float', 'blocks-nan', 'blocks-int') for f in sets[k]}
    # Batches whose containers are NOT named after their labels (Bus.from_items / Batch(items) allow it)
    out['unnamed'] = [(lab, f.rename(None)) for lab, f in zip(('p', 'q', 'r'), sets['ragged-int'])]
    out['swapped-names'] = [(lab, f) for lab, f in zip(('f2', 'f0', 'f1'), sets['ragged-int'])]
    out['same-name'] = [(lab, f.rename('x')) for lab, f in zip(('u', 'v', 'w', 'z'), sets['aligned-int'])]
    return out


def batch_cases(ctx):
    import shutil
    import tempfile
    d = tempfile.mkdtemp(prefix='c19b_')
    try:
        yield from _batch_cases(ctx, d)
    finally:
        shutil.rmtree(d, ignore_errors=True)


def _batch_cases(ctx, store_dir):
    import os
    import static_frame as sf
    ops = batch_ops()
    sets = batch_frame_sets()
    stored = {}
    for sn_, prs in sets.items():
        if sn_ != '_flat' and all(isinstance(l, str) and l == f.name for l, f in prs):
            stored[sn_] = os.path.join(store_dir, sn_ + '.zip')
            sf.Bus.from_items(prs).to_zip_pickle(stored[sn_])
    # text and SQL stores carry text labels and int64 cells unchanged (the codecs are C16/C17's): three more ways in
    text_stored = {}
    for sn_ in ('ragged-int', 'aligned-int', 'single'):
        for fmt in ('zip_tsv', 'zip_csv', 'sqlite'):
            fp_ = os.path.join(store_dir, f'{sn_}_{fmt}' + ('.sqlite' if fmt == 'sqlite' else '.zip'))
            getattr(sf.Bus.from_items(sets[sn_]), 'to_' + fmt)(fp_)
            text_stored[sn_, fmt] = fp_
    flat_twin = sets.pop('_flat')
    block_sets = ['blocks-float', 'blocks-nan', 'blocks-int']
    general = [i for i in range(len(ops)) if not ops[i]['grid']]
    chains = [[i] for i in general]
    pairs = [[i, j] for i in general for j in general]
    chains += ctx.rng.sample(pairs, ctx.n(40, 500))
    for _ in range(ctx.n(30, 350)):
        chains.append([ctx.rng.choice(general) for _ in range(3)])
    # label-dependent functions, alone and after steps that change the containers' names, on every kind of Batch
    by_desc = {op['desc']: i for i, op in enumerate(ops)}
    label_ops = [by_desc[d] for d in ('apply_items(rename(label))', 'apply_items(name=(label, shape))', 'apply_items(label:size)',
                                     'apply_items_except(label:size if r1, KeyError)', "apply_items_except(loc['r0'], KeyError)")]
    renamers = [by_desc[d] for d in ("['c0']", 'iloc[0]', 'sum()', 'iloc[-1:]', 'T', 'apply(values)')]
    label_chains = [[lo] for lo in label_ops] + [[rn, lo] for rn in renamers for lo in label_ops]
    if ctx.tier == 'quick':
        label_chains = label_chains[:len(label_ops)] + ctx.rng.sample(label_chains[len(label_ops):], 12)
    n_label = len(label_chains) * 2
    chains = [c for c in label_chains for _ in (0, 1)] + chains
    # the reduction grid on multi-block members: alone, and behind a selection and an operator
    forced = {}
    grid_ops = [i for i in range(len(ops)) if ops[i]['grid'] and '(axis=' in ops[i]['desc']]
    pre = [by_desc['iloc[1:]'], by_desc['* 2']]
    for gi, g in enumerate(grid_ops):
        forced[len(chains)] = block_sets if (ctx.tier != 'quick' or any(r in ops[g]['desc'] for r in ('mean', 'median', 'std', 'var'))) else [block_sets[gi % 3]]
        chains.append([g])
        if 'axis=1' in ops[g]['desc'] and (ctx.tier != 'quick' or any(r in ops[g]['desc'] for r in ('mean', 'median', 'std', 'var', 'sum'))):
            forced[len(chains)] = block_sets if ctx.tier != 'quick' else [block_sets[gi % 3], block_sets[(gi + 1) % 3]]
            chains.append(pre + [g])
    variants = [dict(), dict(max_workers=2, use_threads=True), dict(max_workers=3, use_threads=True, chunksize=2)]
    set_names = sorted(k for k in sets if k not in block_sets)
    named_differently = ['unnamed', 'swapped-names', 'same-name']
    for ci, chain in enumerate(chains):
        sname = set_names[ci % len(set_names)] if len(chain) > 1 else None
        if ci in forced:
            todo = forced[ci]
        elif ci < n_label:
            todo = named_differently if ci % 2 else [named_differently[(ci // 2) % 3], 'ragged-int']
        else:
            todo = [sname] if sname else (set_names if ctx.tier != 'quick' else ['ragged-int', 'float-nan', 'aligned-int', 'unnamed'])
        for sn in todo:
            pairs_ = sets[sn]
            frames = [f for _, f in pairs_]
            kw = variants[ci % len(variants)] if any(ops[i]['catches'] is None for i in chain) else variants[ci % 2]
            if ci < n_label:
                kw = variants[1 + (ci // 2) % 2] if ci % 2 == 0 else variants[(ci // 2) % 3]
            if kw.get('chunksize', 1) != 1 and any(ops[i]['catches'] for i in chain):
                kw = variants[1]
            if isinstance(pairs_[0][0], int) and any('rename(l' in ops[i]['desc'] or 'rename(label' in ops[i]['desc'] for i in chain):
                continue
            # ---- the label-wise reference with the real methods, and the graph of every operation on the way
            #      (twice: S with the public operation, M with the exact call Batch._apply_attr makes)
            def reference(which):
                tables = [[] for _ in chain]
                alive = list(pairs_)
                series_kwargs = False
                failed = False
                for k, oi in enumerate(chain):
                    op = ops[oi]
                    nxt = []
                    for label, c in alive:
                        cin = cont_lit(c)[0]
                        if op['frame_kwargs'] and isinstance(c, sf.Series):
                            series_kwargs = True
                        try:
                            r = op[which](label, c)
                            tables[k].append(f'({lit.val(label)}, {cin}, Ok {raw_lit(r)})')
                            nxt.append((label, _normalize(r)))
                        except Exception as e:  # noqa
                            tables[k].append(f'({lit.val(label)}, {cin}, Err {lit.s(lit.err_class(e))})')
                            if not (op['catches'] and lit.err_class(e) in op['catches']):
                                failed = True       # the Batch ends here; earlier labels still need their later table rows
                    alive = nxt
                return tables, alive, series_kwargs, failed
            tables, alive, series_kwargs, s_failed = reference('direct')
            tables_m, _, _, _ = reference('impl')
            # ---- the Batch
            # three ways to the same Batch: items, from_frames (labels from names), a zip-pickle store read lazily
            source = ('items', 'from_frames', 'zip_pickle')[ci % 3] if sn in stored else 'items'
            if (sn, 'sqlite') in text_stored and ci % 4 == 3:
                source = ('zip_tsv', 'zip_csv', 'sqlite')[(ci // 4) % 3]

            def run():
                if source == 'from_frames':
                    b = sf.Batch.from_frames(frames, name='bn', **kw)
                elif source == 'zip_pickle':
                    b = sf.Batch.from_zip_pickle(stored[sn], **kw).rename('bn')
                elif source in ('zip_tsv', 'zip_csv', 'sqlite'):
                    b = getattr(sf.Batch, 'from_' + source)(text_stored[sn, source], config=sf.StoreConfig(index_depth=1), **kw).rename('bn')
                else:
                    b = sf.Batch(iter(pairs_), name='bn', **kw)
                for oi in chain:
                    b = ops[oi]['batch'](b)
                return b
            try:
                got = [(k, v) for k, v in run().items()]
                obs = '(Ok ' + lit.lst([f'({lit.val(k)}, {cont_lit(v)[0]})' for k, v in got]) + ')'
                js = {'items': [(k, cont_lit(v)[1]) for k, v in got]}
            except Exception as e:  # noqa
                obs = f'(Err {lit.s(lit.err_class(e))})'
                js = {'error': lit.err_class(e)}
            def stages_of(tbls):
                stages = []
                for k, oi in enumerate(chain):
                    t = f'(table_fn {lit.lst(tbls[k])})'
                    if ops[oi]['catches']:
                        stages.append(f'SExcept {t} (catches_of {lit.lst([lit.s(x) for x in ops[oi]["catches"]])})')
                    else:
                        stages.append(f'SApply {t}')
                return lit.lst(stages)
            items = lit.lst([f'({lit.val(lab)}, {cont_lit(f)[0]})' for lab, f in pairs_])
            st, st_m = stages_of(tables), stages_of(tables_m)
            btags = {'op': 'batch', 'depth': len(chain), 'pool': bool(kw)}
            if series_kwargs:
                btags['finding'] = 'C19-batch-series-kwargs' 
            how = {'items': "sf.Batch(iter(label_frame_pairs), name='bn', **kw)", 'from_frames': "sf.Batch.from_frames(frames, name='bn', **kw)",
                   'zip_pickle': "sf.Batch.from_zip_pickle(fp, **kw).rename('bn')"}.get(source, f"sf.Batch.from_{source}(fp, config=StoreConfig(index_depth=1), **kw).rename('bn')")
            desc = {'call': how + ''.join(f' |> {ops[i]["desc"]}' for i in chain) + ' ; list(batch.items())',
                    'frames': sn, 'kw': kw, 'chain': [ops[i]['desc'] for i in chain], 'observed': _jsonable(js)}
            ctx.count(f'batch:depth{len(chain)}', f'batch:frames={sn}', 'batch:pool' if kw else 'batch:sequential',
                      'batch-out:' + ('items' if 'items' in js else js['error']))
            for i in chain:
                ctx.count('batch-op:' + ops[i]['desc'])
            pf_layout = None
            if ci in forced and len(chain) == 1:
                # the reference itself must not depend on the block layout: same data, one array per column
                def red(c):
                    try:
                        return raw_lit(ops[chain[0]]['direct'](None, c))
                    except Exception as e:  # noqa
                        return lit.err_class(e)
                for lab, f in pairs_:
                    a_, b2 = red(f), red(flat_twin[lab])
                    if a_ != b2:
                        pf_layout = f'{ops[chain[0]]["desc"]} on Frame {lab} (blocks {zoo.layout_str(zoo.layout_of(f))}) = {a_}, on the same data one array per column = {b2}'
                ctx.count('batch:reduction-grid')
            yield Case('api:batch.items', desc,
                       m=f'res_eqb items_eqb (collect ({"M_batch_pool" if kw else "M_batch"} {st_m} {items})) {obs}',
                       s=f'bs_eqb items_eqb (collect (S_batch {st} {items})) {obs}',
                       py_fail=pf_layout, tags=btags, nontrivial=len(frames) > 1,
                       key=f'batch{sn}{chain}{sorted(kw.items())}{source}')
            # ---- export
            if (ci % 2 == 0 or len(chain) == 1) and (ci not in forced or ci % 4 == 0):
                for axis in ((0, 1) if len(chain) == 1 else (ci % 2,)):
                    try:
                        fr_ = run().to_frame(axis=axis)
                        obs_f = f'(Ok {cont_lit(fr_)[0]})'
                        jf = cont_lit(fr_)[1]
                    except Exception as e:  # noqa
                        obs_f = f'(Err {lit.s(lit.err_class(e))})'
                        jf = {'error': lit.err_class(e)}
                    # results whose other axis is not aligned are exported through a union + fill: outside the model
                    conts = [c for _, c in alive]
                    ser = [isinstance(c, sf.Series) for c in conts]
                    supported = bool(conts) and not s_failed
                    if supported and all(ser):
                        # zero-length Series would make a Frame without columns/rows: Frame.from_concat's business (C11)
                        supported = all(lit.labels(c.index) == lit.labels(conts[0].index) for c in conts) and len(conts[0].index) > 0
                    elif supported and not any(ser):
                        other = (lambda c: lit.labels(c.columns)) if axis == 0 else (lambda c: lit.labels(c.index))
                        supported = all(other(c) == other(conts[0]) for c in conts) and len(other(conts[0])) > 0
                        kinds = {c.values.dtype.kind for c in conts}
                        supported = supported and len(kinds) == 1
                    else:
                        supported = False
                    if supported and all(ser):
                        supported = len({c.values.dtype.kind for c in conts}) == 1
                    if not supported:
                        continue
                    etags = {'op': 'batch.to_frame', 'axis': axis}
                    if series_kwargs:
                        etags['finding'] = 'C19-batch-series-kwargs'
                    elif not any(ser) and any(c.shape[axis] == 0 for c in conts):
                        etags['finding'] = 'C19-export-empty-result'
                    ctx.count(f'batch-export:axis{axis}', 'batch-export-out:' + jf.get('kind', jf.get('error', '?')))
                    yield Case('api:batch.to_frame', dict(desc, call=desc['call'].replace('list(batch.items())', f'batch.to_frame(axis={axis})'), observed=_jsonable(jf)),
                               m=f'res_eqb cont_eqb ({"M_to_frame_pool" if kw else "M_to_frame"} {axis} (VStr "bn") {st_m} {items}) {obs_f}',
                               s=f'bs_eqb cont_eqb (S_to_frame {axis} (VStr "bn") {st} {items}) {obs_f}',
                               tags=etags, nontrivial=len(frames) > 1, key=f'export{sn}{chain}{axis}{sorted(kw.items())}')
                # to_bus: the Bus holds exactly the label-wise results
                pf = None
                if not series_kwargs:
                    try:
                        bus = run().to_bus()
                        got_b = [(lit.val(k), cont_lit(v)[0]) for k, v in bus.items()]
                        want_b = [(lit.val(k), cont_lit(v)[0]) for k, v in alive]
                        if s_failed:
                            pf = 'to_bus succeeded although an operation raises on one of the Frames'
                        elif got_b != want_b or bus.name != 'bn':
                            pf = f'to_bus holds {got_b}, label-wise results are {want_b}'
                    except Exception as e:  # noqa
                        if not s_failed and alive and all(isinstance(c, sf.Frame) for _, c in alive):
                            pf = f'to_bus raised {type(e).__name__} on Frame results'
                ctx.count('batch:to_bus')
                yield Case('api:batch.to_bus', dict(desc, call=desc['call'].replace('list(batch.items())', 'batch.to_bus()')), py_fail=pf,
                           tags={'op': 'batch.to_bus'}, nontrivial=len(frames) > 1, key=f'tobus{sn}{chain}{sorted(kw.items())}')


def batch_meta_cases(ctx):
    """The Batch's own (not forwarded) interface: name, rename, keys, __iter__, values, shapes, repr, display, to_zip_pickle."""
    import os
    import tempfile
    import static_frame as sf
    sets = batch_frame_sets()
    sets.pop('_flat')
    with tempfile.TemporaryDirectory(prefix='c19bm_') as d:
        for sn, prs in sorted(sets.items()):
            for kw in (dict(), dict(max_workers=2, use_threads=True)):
                mk = lambda: sf.Batch(iter(prs), name='bn', **kw)
                labels = [l for l, _ in prs]
                why = []
                try:
                    if mk().name != 'bn' or mk().rename('z').name != 'z':
                        why.append('name/rename')
                    if [cont_lit(v)[0] for _, v in mk().rename('z').items()] != [cont_lit(f)[0] for _, f in prs]:
                        why.append('rename changed the items')
                    if list(mk().keys()) != labels or list(iter(mk())) != labels:
                        why.append(f'keys()/__iter__ {list(mk().keys())} != {labels}')
                    if [cont_lit(v)[0] for v in mk().values] != [cont_lit(f)[0] for _, f in prs]:
                        why.append('values are not the Frames in label order')
                    sh = mk().shapes
                    if list(sh.index) != labels or list(sh.values) != [f.shape for _, f in prs]:
                        why.append(f'shapes {sh.values.tolist()}')
                    sh2 = (mk() * 2).iloc[0].shapes       # after forwarded operations: shapes of the results
                    if list(sh2.values) != [(f * 2).iloc[0].shape for _, f in prs]:
                        why.append(f'shapes after operations {sh2.values.tolist()}')
                    if 'Batch' not in repr(mk()) or 'bn' not in repr(mk()):
                        why.append('repr')
                    disp = str(mk().display())
                    if not all(str(l) in disp for l in labels):
                        why.append('display does not list the labels')
                    if all(isinstance(l, str) for l in labels):
                        fp = os.path.join(d, f'{sn}{len(kw)}.zip')
                        (mk() + 1).to_zip_pickle(fp)          # export through StoreClientMixin: exactly the label-wise results
                        back = [(l, cont_lit(f.rename(None))[0]) for l, f in sf.Bus.from_zip_pickle(fp).items()]
                        if back != [(l, cont_lit((f + 1).rename(None))[0]) for l, f in prs]:
                            why.append('to_zip_pickle did not store the label-wise results')
                except Exception as e:  # noqa
                    why.append(f'raised {type(e).__name__}: {e}')
                ctx.count('batch:meta')
                yield Case('api:batch.meta', {'call': 'Batch name/rename/keys/__iter__/values/shapes/repr/display/to_zip_pickle', 'frames': sn, 'kw': kw},
                           py_fail='; '.join(why) or None, tags={'op': 'batch.meta', 'pool': bool(kw)}, nontrivial=len(prs) > 1, key=f'bmeta{sn}{sorted(kw.items())}')


def split_model_cases(gen):
    """For inputs in a known-finding class the harness only reports the spec verdict; emit a second, untagged,
    model-only case so that the implementation model M (bugs included) is still checked on them."""
    for c in gen:
        if c.tags.get('finding') and c.m is not None:
            m = c.m
            c.m = None
            yield c
            yield Case(c.kind.replace('api:', 'model:'), c.desc, m=m, tags={k: v for k, v in c.tags.items() if k != 'finding'},
                       nontrivial=c.nontrivial, key='M|' + c.key)
        else:
            yield c


# the KIND of outcome each known finding records: a tag set from the input class survives only when the implementation
# showed exactly that outcome (and no implementation-side check failed); anything else on the same input is reported
EXPECTED_OUTCOME = {
    'C19-key-order-within': ('ok',),                               # a result, in the wrong order (M models which)
    'C19-key-order-revisit': ('raises:ErrorInitIndex',),
    'C19-empty-selection': ('raises:UnboundLocalError',),          # 'raises:RuntimeError' on the array route, see narrow()
    'C19-empty-member': ('raises:ErrorInitIndex',),
    'C19-iter-cross-axis': ('raises:NotImplementedError',),
    'C19-batch-series-kwargs': ('raises:TypeError', 'raises:AttributeError'),
    'C19-export-empty-result': ('raises:ErrorInitIndex',),
    'C19-empty-opposite-selection': ('raises:ErrorInitTypeBlocks',),
}


def narrow(gen):
    for c in gen:
        f = c.tags.get('finding')
        if f:
            obs = c.desc.get('observed')
            outcome = ('raises:' + str(obs['error'])) if isinstance(obs, dict) and 'error' in obs else 'ok'
            want = EXPECTED_OUTCOME[f]
            if f == 'C19-empty-selection' and (c.tags.get('as_array') or c.tags.get('op') == '_extract_array'):
                want = ('raises:RuntimeError',)
            if outcome not in want or c.py_fail:
                c.tags = {k: v for k, v in c.tags.items() if k != 'finding'}
                c.tags['finding_not_applied'] = f
            else:
                c.tags['outcome'] = outcome
        yield c


def cases(ctx):
    for stratum in (iloc_cases, labels_cases, loc_cases, falsy_loc_cases, iter_cases, window_cases, store_cases, from_frame_cases,
                    extract_array_cases, batch_cases):
        yield from split_model_cases(narrow(stratum(ctx)))
    yield from meta_cases(ctx)
    yield from iter_apply_cases(ctx)
    yield from malformed_cases(ctx)
    yield from batch_meta_cases(ctx)
