#!/usr/bin/env python3
'''Which code of /repo do a property's generated cases actually execute?

usage: tools/cov_cases.py Cxx [--tier quick] [--seed 0] [--files frame.py,type_blocks.py] [--min-missed 3]

Runs prop.cases(ctx) (the implementation side only: nothing is evaluated in Coq) under coverage.py restricted to
<repo>/static_frame/core and prints, per source file, the functions/methods whose body was
  NEVER   executed (0 lines hit), or
  PARTLY  executed (>= --min-missed statement lines never hit; the missed line ranges are listed).
This is a measurement of the correspondence generators (DESIGN 10.8: generator quality bounds the correspondence check),
not a proof and not part of any registered check. Builders use it to find routes in a property's scope that no case reaches.'''
import argparse
import ast
import importlib
import os
import sys

HERE = os.path.dirname(os.path.abspath(__file__))
sys.path.insert(0, HERE)
REPO = os.environ.get('SF_REPO', '/repo')
sys.path.insert(1, REPO)
os.environ.setdefault('PYTHONHASHSEED', '0')


def ranges(nums):
    out, start, prev = [], None, None
    for n in sorted(nums):
        if start is None:
            start = prev = n
        elif n == prev + 1:
            prev = n
        else:
            out.append((start, prev))
            start = prev = n
    if start is not None:
        out.append((start, prev))
    return ','.join(f'{a}' if a == b else f'{a}-{b}' for a, b in out)


def main():
    ap = argparse.ArgumentParser()
    ap.add_argument('prop')
    ap.add_argument('--tier', default='quick')
    ap.add_argument('--seed', type=int, default=0)
    ap.add_argument('--files', default='')
    ap.add_argument('--min-missed', type=int, default=3)
    a = ap.parse_args()
    import coverage
    src = os.path.join(REPO, 'static_frame', 'core')
    cov = coverage.Coverage(source=[src], data_file=None, branch=False)
    cov.start()
    try:
        from sfv import core
        prop = importlib.import_module(f'sfv.props.{a.prop.lower()}')
        ctx = core.Context(a.prop.upper(), a.tier, a.seed)
        n = sum(1 for _ in prop.cases(ctx))
    finally:
        cov.stop()
    print(f'{a.prop.upper()}: {n} cases generated (tier {a.tier}, seed {a.seed})')
    want = {f.strip() for f in a.files.split(',') if f.strip()}
    data = cov.get_data()
    for path in sorted(data.measured_files()):
        base = os.path.basename(path)
        if want and base not in want:
            continue
        _, stmts, _, missing, _ = cov.analysis2(path)
        stmts, missing = set(stmts), set(missing)
        tree = ast.parse(open(path).read())
        rows = []

        def visit(node, prefix):
            for ch in ast.iter_child_nodes(node):
                if isinstance(ch, ast.ClassDef):
                    visit(ch, prefix + ch.name + '.')
                elif isinstance(ch, (ast.FunctionDef, ast.AsyncFunctionDef)):
                    body = {l for l in stmts if ch.body[0].lineno <= l <= ch.end_lineno}
                    miss = body & missing
                    if body and miss == body:
                        rows.append(('NEVER ', prefix + ch.name, ch.lineno, ''))
                    elif len(miss) >= a.min_missed:
                        rows.append(('PARTLY', prefix + ch.name, ch.lineno, ranges(miss)))
                    visit(ch, prefix + ch.name + '.')
        visit(tree, '')
        hit = len(stmts - missing)
        print(f'\n== {os.path.relpath(path, REPO)}: {hit}/{len(stmts)} statements executed')
        for kind, name, line, miss in rows:
            print(f'  {kind} {name} (line {line}){" missed " + miss if miss else ""}')


if __name__ == '__main__':
    main()
